"""C10  The generated task scripts run what the user described  (DESIGN 5 / C10)

Only the Python side of script generation is decided.

R10.1  every `export RP_X=` line is fed by the source frozen in the table below
R10.2  td['arguments'] reach the command only through ru.sh_quote (per element)
R10.3  section order of exec and launch script, stdout/stderr redirect, exit
       code plumbing, per-rank `case` covers range(n_ranks)
R10.4  td['environment'] values reach the `export K=V` lines only through a
       quoting function
R10.5  per-rank dicts the executor adds to td['pre_exec'] / td['post_exec']
       are keyed the way _get_prep_exec looks entries up
R10.6  every command of the described pre/post lists stands alone in front of
       its `|| rp_error <section>` (command slot of a guard line = one element
       of the list; never the list, never elements joined other than by `&&`)
R10.7  exit codes: the shell function rp_error which both scripts define ends
       the script with a literal non-zero `exit` (never with a variable such
       as RP_RET, `$?` of its echo, or `return`) and is defined before the
       first guard line; the last statement of each script is `exit` with
       the variable which captured `$?` of the executable / launch command
R10.8  completeness: no filter on the value of an element on the way from
       td['arguments'] / td['environment'] into the text; the environment
       exports are control dependent on td['environment'] only
R10.9  the per-rank `case` switch is generated whenever one entry of the
       pre/post list is a per-rank dict (guard strength over lists of
       str / dict entries)
R10.10 the shell variable the per-rank `case "$V" in` switch reads is the one
       every launcher's get_rank_cmd exports and _get_rank_ids insists on
R10.11 an `export X=` line of _get_rp_env whose value may hold `$Y` (a string
       constant on the way into the value refers to it) follows `export Y=`
R10.12 the per-rank rendering of _get_prep_exec only reads the described
       entries: no in-place change of td[sig] (or of a copy which outlives
       the rank iteration) inside the rank loop and the helpers it calls
(R10.3 also: the named environment is sourced before the environment exports;
 the form of the stdout / stderr file name is decided by a test on that name -
 also when the names are set in a loop over a literal table and through a
 helper, whose return values and tests are read in terms of the arguments)
"""

import ast
import re

from ..model import (walk, dotted, call_name, kwarg, unparse, short, UNKNOWN,
                     root_name, AnalysisError, calls_in, stores_in_target,
                     names_in)
from ..cfg import cfg_of
from ..flow import Deps, guards
from .. import idioms as I
from .c09 import factory_classes, reach, const_key, is_static

EXE   = ('agent/executing/base.py', 'AgentExecutingComponent')
POPEN = ('agent/executing/popen.py', 'Popen')
LM    = ('agent/launch_method/base.py', 'LaunchMethod')

SANITIZERS = {'ru.sh_quote', 'sh_quote', 'shlex.quote', 'quote', 'pipes.quote'}


# ------------------------------------------------------------------------------
# symbolic sources ("leaves") of an expression
#
def chain(expr):
    """(base expr, [segments], [index exprs]) of an access chain.  Attributes,
    constant string subscripts and .get('k') are segments ('a.b' keys are
    split: the registry accepts dotted keys); other subscripts (indices,
    slices) are transparent; the extra expressions are .get() defaults."""
    segs, extra = [], []
    e = expr
    while True:
        if isinstance(e, ast.Attribute):
            segs.append(e.attr)
            e = e.value
        elif isinstance(e, ast.Subscript):
            s = e.slice
            if isinstance(s, ast.Constant) and isinstance(s.value, str):
                segs.extend(reversed(s.value.split('.')))
            # (an index or slice selects, it does not supply the value)
            e = e.value
        elif isinstance(e, ast.Call) and isinstance(e.func, ast.Attribute) \
                and e.func.attr == 'get' and e.args and \
                isinstance(e.args[0], ast.Constant) and \
                isinstance(e.args[0].value, str):
            segs.extend(reversed(e.args[0].value.split('.')))
            extra.extend(e.args[1:])
            e = e.func.value
        else:
            break
    segs.reverse()
    return e, segs, extra


def local_defs(fnode):
    """{name: [value exprs]} of the plain-name bindings of a function"""
    out = {}
    for n in walk(fnode):
        if isinstance(n, ast.Assign):
            for t in n.targets:
                if isinstance(t, ast.Name):
                    out.setdefault(t.id, []).append(n.value)
                elif isinstance(t, (ast.Tuple, ast.List)):
                    if isinstance(n.value, (ast.Tuple, ast.List)) and \
                            len(n.value.elts) == len(t.elts):
                        for a, b in zip(t.elts, n.value.elts):
                            if isinstance(a, ast.Name):
                                out.setdefault(a.id, []).append(b)
                    else:
                        for x in stores_in_target(t):
                            out.setdefault(x, []).append(n.value)
        elif isinstance(n, ast.AugAssign) and isinstance(n.target, ast.Name):
            out.setdefault(n.target.id, []).append(n.value)
        elif isinstance(n, ast.AnnAssign) and n.value is not None and \
                isinstance(n.target, ast.Name):
            out.setdefault(n.target.id, []).append(n.value)
        elif isinstance(n, (ast.For, ast.comprehension)):
            for x in stores_in_target(n.target):
                out.setdefault(x, []).append(n.iter)
    return out


def self_defs(fnode):
    """{attr: [value exprs]} of the `self.attr = ..` statements"""
    out = {}
    for n in walk(fnode):
        if isinstance(n, ast.Assign):
            for t in n.targets:
                if isinstance(t, ast.Attribute) and \
                        isinstance(t.value, ast.Name) and t.value.id == 'self':
                    out.setdefault(t.attr, []).append(n.value)
    return out


class Leaves:
    """maximal access paths an expression is computed from, locals expanded
    by their definitions: td['cores_per_rank'] with td = task['description']
    gives 'task/description/cores_per_rank'"""

    def __init__(self, fnode, selfdefs=None, rename=None):
        self.defs = local_defs(fnode)
        self.selfdefs = selfdefs or {}
        self.rename = rename or {}

    def of(self, expr, seen=frozenset()):
        out = set()
        if expr is None:
            return out
        base, segs, extra = chain(expr)
        if isinstance(base, ast.Name):
            for x in extra:
                out |= self.of(x, seen)
            name = base.id
            if name == 'self' and segs and segs[0] in self.selfdefs and \
                    ('self', segs[0]) not in seen:
                for v in self.selfdefs[segs[0]]:
                    out |= self._ext(v, segs[1:], seen | {('self', segs[0])})
            elif name != 'self' and name in self.defs and name not in seen:
                for v in self.defs[name]:
                    out |= self._ext(v, segs, seen | {name})
            else:
                out.add('/'.join([self.rename.get(name, name)] + segs))
            return out
        if base is not expr:
            # chain below a non-name (a call result): sources of the base
            for x in extra:
                out |= self.of(x, seen)
            return out | self.of(base, seen)
        if isinstance(expr, ast.Call):
            if isinstance(expr.func, ast.Attribute):
                # method call: the receiver is a source unless it is a module
                r = root_name(expr.func.value)
                if r is not None and (r == 'self' or r in self.defs or
                                      r in self.rename):
                    out |= self.of(expr.func.value, seen)
            for a in expr.args:
                out |= self.of(a, seen)
            for k in expr.keywords:
                out |= self.of(k.value, seen)
            return out
        if isinstance(expr, ast.Constant):
            return out
        for c in ast.iter_child_nodes(expr):
            if isinstance(c, ast.expr):
                out |= self.of(c, seen)
            elif isinstance(c, ast.comprehension):
                out |= self.of(c.iter, seen)
        return out

    def _ext(self, v, segs, seen):
        sub = self.of(v, seen)
        b, s, _ = chain(v)
        if segs and isinstance(b, ast.Name):
            return {p + '/' + '/'.join(segs) for p in sub}
        return sub


def task_rename(f):
    ps = [p for p in f.params if p not in ('self', 'cls')]
    return {ps[0]: 'task'} if ps and ps[0] != 'task' and \
        'task' not in ps else {}


# ------------------------------------------------------------------------------
# what text a script builder produces: value flow, not statement shapes
#
# A builder's text is a tree: a sequence of items, `('loop', seq)` for the part
# repeated per iteration and `('alt', [seq, ..])` for alternatives.  Items are
# string constants, format strings with their values, calls of other builders
# and opaque expressions.  It does not matter whether the text is put together
# by `x += ..`, `x = x + ..`, list.append / ''.join, one `+` expression, a
# comprehension, or a table of rows rendered in a loop.
#
FMT_RE = re.compile(r'%(?:\([^)]*\))?[-#0 +]*\d*(?:\.\d+)?[sdrfi]')
STR_PASS = {'rstrip', 'lstrip', 'strip', 'encode', 'decode', 'expandtabs'}


ELEMS = '\0elements of '         # env key prefix: element boundaries of a list


class Item:
    __slots__ = ('kind', 'node', 'text', 'vals')

    def __init__(self, kind, node, text=None, vals=None):
        self.kind = kind            # const fmt call opaque
        self.node = node
        self.text = text            # constant text / format string
        self.vals = vals or []      # value expressions of the placeholders

    def __repr__(self):
        return '<%s %s>' % (self.kind, short(self.node, 40)
                            if self.text is None else repr(self.text)[:50])


def _is_prefix(old, new):
    return len(new) >= len(old) and all(a is b for a, b in zip(old, new))


class TextEval:

    def __init__(self, prog, f, K=None):
        self.prog, self.f, self.K = prog, f, K or f.cls
        self.returns = []           # [seq] one per return statement
        self.sinks = []             # [seq] text handed to a file write
        self.tables = self._tables()
        self.subst = {}
        self.lossy = []             # join calls whose separator got lost
        self.ldefs = local_defs(f.node)
        self.block(f.node.body, {})

    # -- tables: name -> [tuple rows] (list literal of tuples + appends)
    def _tables(self):
        out = {}
        for n in walk(self.f.node):
            if isinstance(n, ast.Assign) and len(n.targets) == 1 and \
                    isinstance(n.targets[0], ast.Name) and \
                    isinstance(n.value, (ast.List, ast.Tuple)) and \
                    n.value.elts and all(isinstance(e, ast.Tuple)
                                         for e in n.value.elts):
                out.setdefault(n.targets[0].id, []).extend(n.value.elts)
        for n in walk(self.f.node):
            if isinstance(n, ast.Call) and isinstance(n.func, ast.Attribute) \
                    and n.func.attr == 'append' and \
                    isinstance(n.func.value, ast.Name) and \
                    n.func.value.id in out and len(n.args) == 1 and \
                    isinstance(n.args[0], ast.Tuple):
                out[n.func.value.id].append(n.args[0])
        return out

    # -- partial evaluation of format expressions
    def pfmt(self, e):
        """(format text, [value exprs]) of a string-valued expression whose
        text is known up to placeholders; None otherwise"""
        if isinstance(e, ast.Name) and e.id in self.subst:
            return self.pfmt(self.subst[e.id])
        if isinstance(e, ast.Constant) and isinstance(e.value, str):
            return e.value.replace('%', '%%'), []
        if isinstance(e, ast.Name) and self._local_const(e.id) is not None:
            return self._local_const(e.id).replace('%', '%%'), []
        if isinstance(e, (ast.Attribute, ast.Name)):
            v = self.prog.fold(self.f.module, e, self.K)
            if isinstance(v, str):
                return v.replace('%', '%%'), []
            return None
        if isinstance(e, ast.JoinedStr):
            text, vals = '', []
            for v in e.values:
                if isinstance(v, ast.Constant):
                    text += str(v.value).replace('%', '%%')
                else:
                    sub = self.pfmt(v.value) if v.format_spec is None else None
                    if sub and not sub[1]:
                        text += sub[0]
                    else:
                        text += '%s'
                        vals.append(v.value)
            return text, vals
        if isinstance(e, ast.BinOp) and isinstance(e.op, ast.Add):
            a, b = self.pfmt(e.left), self.pfmt(e.right)
            if a and b:
                return a[0] + b[0], a[1] + b[1]
            return None
        if isinstance(e, ast.BinOp) and isinstance(e.op, ast.Mod):
            left = self.pfmt(e.left)
            if left is None or left[1]:
                return None
            fmt = left[0].replace('%%', '\0')
            # `left` is fully known text: its own %% were escaped above, so
            # undo one level to get at the conversions of the original string
            raw = self._raw(e.left)
            if raw is None:
                return None
            args = e.right.elts if isinstance(e.right, ast.Tuple) \
                else [e.right]
            convs = list(FMT_RE.finditer(raw))
            if len(convs) != len(args):
                return None
            text, vals, pos = '', [], 0
            for m, a in zip(convs, args):
                text += raw[pos:m.start()].replace('%%', '\1').replace(
                    '%', '%%').replace('\1', '%%')
                pos = m.end()
                sub = self.pfmt(a) if m.group(0) == '%s' else None
                if sub is not None:
                    text += sub[0]
                    vals += sub[1]
                else:
                    text += m.group(0)
                    vals.append(self.subst.get(a.id, a)
                                if isinstance(a, ast.Name) else a)
            text += raw[pos:].replace('%%', '\1').replace('%', '%%').replace(
                '\1', '%%')
            return text, vals
        return None

    def _local_const(self, name):
        vals = self.ldefs.get(name, [])
        if len(vals) == 1 and isinstance(vals[0], ast.Constant) and \
                isinstance(vals[0].value, str) and \
                name not in self.f.params:
            return vals[0].value
        return None

    def _raw(self, e):
        """the literal value of a constant-text expression"""
        if isinstance(e, ast.Name) and e.id in self.subst:
            return self._raw(self.subst[e.id])
        if isinstance(e, ast.Constant) and isinstance(e.value, str):
            return e.value
        if isinstance(e, ast.Name) and self._local_const(e.id) is not None:
            return self._local_const(e.id)
        if isinstance(e, (ast.Attribute, ast.Name)):
            v = self.prog.fold(self.f.module, e, self.K)
            return v if isinstance(v, str) else None
        if isinstance(e, ast.BinOp) and isinstance(e.op, ast.Add):
            a, b = self._raw(e.left), self._raw(e.right)
            return a + b if a is not None and b is not None else None
        return None

    # -- expressions
    def seq(self, e, env):
        if isinstance(e, ast.Name) and e.id in self.subst:
            return self.seq(self.subst[e.id], env)
        if isinstance(e, ast.Constant):
            if isinstance(e.value, str):
                return [Item('const', e, e.value)] if e.value else []
            return [Item('opaque', e)]
        if isinstance(e, ast.Name):
            if e.id in env:
                return list(env[e.id])
            return [Item('opaque', e)]
        if isinstance(e, ast.BinOp) and isinstance(e.op, ast.Add):
            return self.seq(e.left, env) + self.seq(e.right, env)
        if isinstance(e, (ast.BinOp, ast.JoinedStr)):
            r = self.pfmt(e)
            if r is not None:
                kind = 'fmt' if r[1] else 'const'
                return [Item(kind, e, r[0] if r[1] else r[0].replace('%%', '%'),
                             r[1])]
            return [Item('opaque', e)]
        if isinstance(e, (ast.List, ast.Tuple)) and not any(
                isinstance(x, ast.Tuple) for x in e.elts):
            out = []
            for x in e.elts:
                out += self.seq(x, env)
            return out
        if isinstance(e, ast.IfExp):
            return [('alt', [self.seq(e.body, env), self.seq(e.orelse, env)])]
        if isinstance(e, (ast.ListComp, ast.GeneratorExp)):
            return self.comp(e, env)
        if isinstance(e, ast.Call):
            f = e.func
            if isinstance(f, ast.Attribute) and f.attr == 'join' and \
                    len(e.args) == 1:
                return self.join(e, env)
            if isinstance(f, ast.Attribute) and f.attr in STR_PASS:
                return self.seq(f.value, env)
            if isinstance(f, ast.Name) and f.id in ('str', 'list', 'tuple') \
                    and len(e.args) == 1:
                return self.seq(e.args[0], env)
            if isinstance(f, ast.Name) and f.id in ('str', 'list', 'tuple') \
                    and not e.args and not e.keywords:
                return []                       # the empty text / list
            if call_name(e).startswith('self.'):
                return [Item('call', e)]
            if isinstance(f, ast.Name) and f.id in self.f.nested:
                return [Item('call', e)]        # a nested builder function
            return [Item('opaque', e)]
        if isinstance(e, ast.Attribute):
            r = self.pfmt(e)
            if r is not None:
                return [Item('const', e, r[0].replace('%%', '%'))]
        return [Item('opaque', e)]

    # -- sep.join(x): the elements of x with the separator between them
    def join(self, e, env):
        a = e.args[0]
        sep = self._raw(e.func.value)
        if sep == '':
            return self.seq(a, env)
        parts = self.elements(a, env)
        if parts is not None and sep is not None:
            out = []
            for i, p in enumerate(parts):
                if i:
                    out.append(Item('const', e.func.value, sep))
                out += p
            return out
        inner = self.seq(a, env)
        if len(inner) == 1 and isinstance(inner[0], Item) and \
                inner[0].kind == 'opaque':
            # a list whose text this function does not put together: the
            # joined string is one value (its multiplicity is Mult's business)
            return [Item('opaque', e)]
        self.lossy.append(e)
        return inner

    def elements(self, a, env):
        """[seq, ..] one per element of the list-valued expression a, or None
        if the element boundaries are not known"""
        if isinstance(a, ast.Name) and a.id in self.subst:
            return self.elements(self.subst[a.id], env)
        if isinstance(a, (ast.List, ast.Tuple)):
            if any(isinstance(x, (ast.Starred, ast.Tuple)) for x in a.elts):
                return None
            return [self.seq(x, env) for x in a.elts]
        if isinstance(a, ast.Call) and isinstance(a.func, ast.Name) and \
                a.func.id in ('list', 'tuple') and not a.keywords:
            return [] if not a.args else self.elements(a.args[0], env) \
                if len(a.args) == 1 else None
        if isinstance(a, ast.Name):
            sh = env.get(ELEMS + a.id)
            if sh is not None and all(isinstance(p, list) for p in sh):
                return list(sh)
        if isinstance(a, (ast.ListComp, ast.GeneratorExp)) and \
                len(a.generators) == 1:
            g = a.generators[0]
            if not g.ifs and isinstance(g.target, ast.Name) and \
                    isinstance(g.iter, (ast.List, ast.Tuple)) and not any(
                        isinstance(x, ast.Starred) for x in g.iter.elts):
                parts = []
                for x in g.iter.elts:
                    old = self.subst
                    self.subst = dict(old, **{g.target.id: x})
                    parts.append(self.seq(a.elt, env))
                    self.subst = old
                return parts
        return None

    def comp(self, e, env):
        if len(e.generators) != 1:
            return [('loop', [Item('opaque', e)])]
        g = e.generators[0]
        rows = self.rows_of(g.iter, g.target)
        if rows is not None:
            out = []
            for sub in rows:
                old = self.subst
                self.subst = dict(old, **sub)
                out += self.seq(e.elt, env)
                self.subst = old
            return out
        return [('loop', self.seq(e.elt, env))]

    def rows_of(self, it, target):
        """[{target name: row element}] if `it` is a table of this function"""
        if not (isinstance(it, ast.Name) and it.id in self.tables and
                isinstance(target, (ast.Tuple, ast.List)) and
                all(isinstance(t, ast.Name) for t in target.elts)):
            return None
        names = [t.id for t in target.elts]
        rows = [r for r in self.tables[it.id] if len(r.elts) == len(names)]
        if len(rows) != len(self.tables[it.id]):
            return None
        return [dict(zip(names, r.elts)) for r in rows]

    # -- statements; returns True if the block always leaves the function
    def block(self, stmts, env):
        for s in stmts:
            if self.stmt(s, env):
                return True
        return False

    def stmt(self, s, env):
        if isinstance(s, ast.Return):
            if s.value is not None:
                self.returns.append(self.seq(s.value, env))
            return True
        if isinstance(s, ast.Raise):
            return True
        if isinstance(s, ast.Assign):
            if len(s.targets) == 1 and isinstance(s.targets[0], ast.Name):
                parts = self.elements(s.value, env)
                env[s.targets[0].id] = self.seq(s.value, env)
                if parts is None:
                    env.pop(ELEMS + s.targets[0].id, None)
                else:
                    env[ELEMS + s.targets[0].id] = parts
            else:
                for t in s.targets:
                    for x in stores_in_target(t):
                        env.pop(x, None)
                        env.pop(ELEMS + x, None)
            self.calls_of(s.value, env)
            return False
        if isinstance(s, ast.AnnAssign) and isinstance(s.target, ast.Name) \
                and s.value is not None:
            parts = self.elements(s.value, env)
            env[s.target.id] = self.seq(s.value, env)
            if parts is None:
                env.pop(ELEMS + s.target.id, None)
            else:
                env[ELEMS + s.target.id] = parts
            return False
        if isinstance(s, ast.AugAssign):
            if isinstance(s.target, ast.Name) and isinstance(s.op, ast.Add):
                n = s.target.id
                old = env.get(ELEMS + n)
                parts = self.elements(s.value, env) if old is not None \
                    else None
                env[n] = env.get(n, [Item('opaque', s.target)]) + \
                    self.seq(s.value, env)
                if parts is None:
                    env.pop(ELEMS + n, None)
                else:
                    env[ELEMS + n] = old + parts
            elif isinstance(s.target, ast.Name):
                env[s.target.id] = [Item('opaque', s)]
                env.pop(ELEMS + s.target.id, None)
            return False
        if isinstance(s, ast.Expr):
            self.calls_of(s.value, env)
            return False
        if isinstance(s, ast.If):
            e1, e2 = dict(env), dict(env)
            t1 = self.block(s.body, e1)
            t2 = self.block(s.orelse, e2)
            if t1 and t2:
                return True
            if t1 or t2:
                src = e2 if t1 else e1
                env.clear()
                env.update(src)
                return False
            for n in set(e1) | set(e2):
                a, b = e1.get(n), e2.get(n)
                if a is None or b is None:
                    env[n] = a if a is not None else b
                elif len(a) == len(b) and _is_prefix(a, b):
                    env[n] = a
                else:
                    k = 0
                    while k < len(a) and k < len(b) and a[k] is b[k]:
                        k += 1
                    env[n] = a[:k] + [('alt', [a[k:], b[k:]])]
            return False
        if isinstance(s, (ast.For, ast.While)):
            rows = self.rows_of(s.iter, s.target) \
                if isinstance(s, ast.For) else None
            if rows is not None:
                for sub in rows:
                    old = self.subst
                    self.subst = dict(old, **sub)
                    self.block(s.body, env)
                    self.subst = old
                self.block(s.orelse, env)
                return False
            eb = dict(env)
            self.block(s.body, eb)
            for n, new in eb.items():
                old = env.get(n)
                if old is not None and _is_prefix(old, new):
                    if len(new) > len(old):
                        env[n] = old + [('loop', new[len(old):])]
                else:
                    env[n] = [('loop', new)]
            return self.block(s.orelse, env) and False
        if isinstance(s, (ast.With, ast.AsyncWith)):
            return self.block(s.body, env)
        if isinstance(s, ast.Try):
            t = self.block(s.body, env)
            for h in s.handlers:
                self.block(h.body, dict(env))
            self.block(s.orelse, env)
            self.block(s.finalbody, env)
            return False
        return False

    def calls_of(self, e, env):
        """list accumulation and file writes among the calls of expression e"""
        for c in calls_in(e):
            fn = c.func
            if isinstance(fn, ast.Attribute) and isinstance(fn.value, ast.Name) \
                    and fn.value.id in env and c.args:
                n = fn.value.id
                sh = env.get(ELEMS + n)
                if fn.attr == 'append':
                    one = self.seq(c.args[0], env)
                    env[n] = env[n] + one
                    if sh is not None:
                        env[ELEMS + n] = sh + [one]
                elif fn.attr == 'extend':
                    parts = self.elements(c.args[0], env) \
                        if sh is not None else None
                    env[n] = env[n] + self.seq(c.args[0], env)
                    if parts is None:
                        env.pop(ELEMS + n, None)
                    else:
                        env[ELEMS + n] = sh + parts
                elif fn.attr == 'insert':
                    env[n] = [Item('opaque', c)]
                    env.pop(ELEMS + n, None)
            if isinstance(fn, ast.Attribute) and fn.attr in ('write',
                                                             'writelines') \
                    and c.args:
                self.sinks.append(self.seq(c.args[-1], env))
            else:
                callee = self.prog.resolve_call(self.f, c, self.K)
                if callee is not None and callee is not self.f and \
                        callee.cls is not None:
                    i = written_param(callee)
                    if i is not None:
                        ps = [p for p in callee.params
                              if p not in ('self', 'cls')]
                        a = kwarg(c, ps[i], i)
                        if a is not None:
                            self.sinks.append(self.seq(a, env))

    # -- results
    def script(self):
        """the text this function writes (if it writes one) or returns"""
        if self.sinks:
            return self.sinks[-1] if len(self.sinks) == 1 else \
                [('alt', self.sinks)]
        rets = [r for r in self.returns if r]
        if not rets:
            return []
        return rets[0] if len(rets) == 1 else [('alt', rets)]

    def items(self, seq=None):
        """[(Item, path)] in text order"""
        out = []

        def rec(sq, path):
            for i, x in enumerate(sq):
                if isinstance(x, Item):
                    out.append((x, path + (i,)))
                elif x[0] == 'loop':
                    rec(x[1], path + (i, 'loop'))
                else:
                    for k, br in enumerate(x[1]):
                        rec(br, path + (i, ('alt', k)))
        rec(self.script() if seq is None else seq, ())
        return out


def written_param(f):
    """index (among the non-self parameters) of the parameter of f whose
    value f writes to a file, or None"""
    ps = [p for p in f.params if p not in ('self', 'cls')]
    for c in calls_in(f.node):
        if isinstance(c.func, ast.Attribute) and c.func.attr in (
                'write', 'writelines') and c.args:
            r = c.args[-1]
            while isinstance(r, ast.Call) and \
                    isinstance(r.func, ast.Attribute):
                r = r.func.value
            if isinstance(r, ast.Name) and r.id in ps:
                return ps.index(r.id)
    return None


def before(pa, pb):
    """True: a precedes b; False: b precedes a; None: exclusive / same"""
    for x, y in zip(pa, pb):
        if x == y:
            continue
        if isinstance(x, int) and isinstance(y, int):
            return x < y
        return None
    return None


def in_loop(path):
    return 'loop' in path


# ------------------------------------------------------------------------------
# R10.1  export sources
#
EXPORT_RE = re.compile(r'export\s+(RP_[A-Z0-9_]+)=')

# ultimate sources; `self.pid` etc. are expanded by their definitions in
# `initialize`, so exporting self.sid or self.session.uid is the same thing.
# Only the variables named by the property (ids, sandboxes, resource, registry
# and control addresses, cores / gpus per rank, rank count) are in the table:
# RP_GTOD / RP_PROF / RP_CTRL / RP_PROF_TGT serve RP's own shell helpers.
RP_ENV = {
    'RP_TASK_ID'            : {'task/uid'},
    'RP_TASK_NAME'          : {'task/name'},
    'RP_PILOT_ID'           : {'self/session/cfg/pid'},
    'RP_SESSION_ID'         : {'self/session/uid'},
    'RP_RESOURCE'           : {'self/session/cfg/resource'},
    'RP_RESOURCE_SANDBOX'   : {'self/session/cfg/resource_sandbox'},
    'RP_SESSION_SANDBOX'    : {'self/session/cfg/session_sandbox'},
    'RP_PILOT_SANDBOX'      : {'self/session/cfg/pilot_sandbox'},
    'RP_TASK_SANDBOX'       : {'task/task_sandbox_path'},
    'RP_REGISTRY_ADDRESS'   : {'self/session/reg_addr'},
    'RP_CONTROL_PUB_ADDRESS': {'self/_reg/bridges/control_pubsub/addr_pub'},
    'RP_CONTROL_SUB_ADDRESS': {'self/_reg/bridges/control_pubsub/addr_sub'},
    'RP_CORES_PER_RANK'     : {'task/description/cores_per_rank'},
    'RP_GPUS_PER_RANK'      : {'task/description/gpus_per_rank'},
}

INIT_ATTRS = ('pid', 'sid', 'resource', 'rsbox', 'ssbox', 'psbox')

KNOWN_PREFIX = ('task/', 'self/_reg/', 'self/session/')


def export_lines(prog, f):
    """[(RP name, [value exprs], node)] for the `export RP_X=` lines in the text
    which f returns - however that text is put together"""
    T = TextEval(prog, f)
    out = []
    for it, path in T.items():
        if it.text is None:
            continue
        lines = it.text.split('\n')
        n_exp = sum(len(EXPORT_RE.findall(l)) for l in lines)
        if not n_exp:
            continue
        # values per line: placeholders are counted line by line
        k = 0
        for l in lines:
            n = len(FMT_RE.findall(l.replace('%%', '')))
            m = EXPORT_RE.findall(l)
            if len(m) > 1:
                raise AnalysisError('UNRECOGNISED-IDIOM %s: several exports '
                                    'in one line' % f.where)
            if m:
                out.append((m[0], list(it.vals[k:k + n]), it.node))
            k += n
    if not T.returns:
        raise AnalysisError('UNRECOGNISED-IDIOM %s: returns no text' % f.where)
    return out


def verdict(required, got, universe):
    """'ok' | 'wrong' | 'unknown'"""
    if required <= got:
        return 'ok'
    known = {p for p in got if p in universe or p.startswith(KNOWN_PREFIX)}
    if known or not got:
        return 'wrong'
    return 'unknown'


def r10_1(prog, rep, rid='R10.1'):
    rep.rule(rid, 'the value of every `export RP_X=` line of the task scripts '
             'derives from the source the variable stands for (table: ids, '
             'sandboxes, cores/gpus per rank, control addresses, rank count)',
             minimum=29)
    # (31 today; an export line which is dropped is reported missing and
    # takes its own `derives from` obligation with it - hence the slack of 2)
    f = prog.method(EXE[0], EXE[1], '_get_rp_env')
    rep.saw(f)
    fi = prog.method(EXE[0], EXE[1], 'initialize')
    rep.saw(fi)
    sd = {a: v for a, v in self_defs(fi.node).items() if a in INIT_ATTRS}
    # a local of `initialize` inside such a definition is not expanded (there
    # is none today); a name it cannot place makes the verdict 'unknown'
    L = Leaves(f.node, selfdefs=sd, rename=task_rename(f))
    universe = set()
    for v in RP_ENV.values():
        universe |= v
    seen = {}
    for name, vals, node in export_lines(prog, f):
        if name not in RP_ENV:
            rep.info(rid, f, 'export %s is not in the checker\'s table' % name,
                     f.loc(node))
            continue
        got = set()
        for v in vals:
            got |= L.of(v)
        seen[name] = seen.get(name, 0) + 1
        req = RP_ENV[name]
        vd = verdict(req, got, universe)
        if vd == 'unknown':
            raise AnalysisError('UNRECOGNISED-IDIOM %s: export %s is computed '
                                'from %s, which the source table cannot relate '
                                'to %s' % (f.where, name, sorted(got),
                                           sorted(req)))
        rep.check(vd == 'ok', rid, f,
                  'export %s derives from %s' % (name, ', '.join(sorted(req))),
                  construct='export %s' % name,
                  message='`export %s=` in %s is computed from %s but stands '
                  'for %s: the task sees a value which does not describe it'
                  % (name, f.qual, ', '.join(sorted(got)) or 'a constant',
                     ', '.join(sorted(req))),
                  loc=f.loc(node),
                  history=EXPORT_HISTORY.get(name, 'any task: $%s in the task '
                  'scripts is not the described value' % name))
    for name in sorted(RP_ENV):
        rep.check(name in seen, rid, f, '%s is exported' % name,
                  construct='export %s:missing' % name,
                  message='%s no longer exports %s: tasks (and the RP shell '
                  'helpers which use it) run without it' % (f.qual, name),
                  loc=f.loc(),
                  history='any task which reads $%s' % name)
    # RP_RANKS
    fr = prog.method(EXE[0], EXE[1], '_get_rank_ids')
    rep.saw(fr)
    ps = [p for p in fr.params if p != 'self']
    Lr = Leaves(fr.node)
    n = 0
    for name, vals, node in export_lines(prog, fr):
        if name != 'RP_RANKS':
            continue
        n += 1
        got = set()
        for v in vals:
            got |= Lr.of(v)
        rep.check(ps[0] in got, rid, fr,
                  'export RP_RANKS derives from parameter %s' % ps[0],
                  construct='export RP_RANKS',
                  message='`export RP_RANKS=` is computed from %s, not from '
                  'the rank count handed in (%s): rp_sync_ranks waits for a '
                  'wrong number of ranks' % (sorted(got) or 'a constant',
                                             ps[0]),
                  loc=fr.loc(node),
                  history='task with 2 ranks and pre_exec_sync: the ranks '
                  'wait for a number of sync marks that never arrives')
    rep.check(n > 0, rid, fr, 'RP_RANKS is exported',
              construct='export RP_RANKS:missing',
              message='_get_rank_ids no longer exports RP_RANKS',
              loc=fr.loc(), history='rp_sync_ranks compares against an empty '
              'value')
    fc = prog.method(EXE[0], EXE[1], '_create_exec_script')
    Lc = Leaves(fc.node, rename=task_rename(fc))
    for c in calls_in(fc.node):
        if call_name(c) == 'self._get_rank_ids':
            a = kwarg(c, ps[0], 0)
            got = Lc.of(a)
            rep.check('task/description/ranks' in got, rid, fc,
                      "the rank count given to _get_rank_ids is "
                      "td['ranks']", construct=c,
                      message='_get_rank_ids is called with %s, not with the '
                      'described number of ranks' % (sorted(got) or
                                                     'a constant'),
                      loc=fc.loc(c),
                      history='task with ranks=4: RP_RANKS differs from 4')


EXPORT_HISTORY = {
    'RP_CONTROL_SUB_ADDRESS': 'any task which subscribes to '
        '$RP_CONTROL_SUB_ADDRESS connects to the publisher-side socket of the '
        'control bridge and never receives a message',
    'RP_CONTROL_PUB_ADDRESS': 'any task which publishes to '
        '$RP_CONTROL_PUB_ADDRESS connects to the subscriber-side socket of '
        'the control bridge: its messages are lost',
}


# ------------------------------------------------------------------------------
# R10.11  define before use among the export lines of one text: the shell
# expands `$Y` in the value of `export X="..$Y.."` when that line runs
#
SH_REF_RE = re.compile(r'(?<!\\)\$\{?([A-Za-z_]\w*)')
EXPORT_LINE_RE = re.compile(r'(?:^|[\s;&|(])export\s+([A-Za-z_]\w*)=')


def export_lines_at(prog, f):
    """[(name, [value exprs], node, path, text of the line)] for the `export
    X=` lines of the text which f returns; the path orders the lines (see
    `before`), lines of one piece of text are ordered by their index"""
    T = TextEval(prog, f)
    out = []
    for it, path in T.items():
        if it.text is None:
            continue
        k = 0
        for i, l in enumerate(it.text.split('\n')):
            n = len(FMT_RE.findall(l.replace('%%', '')))
            m = EXPORT_LINE_RE.findall(l)
            if len(m) == 1:
                out.append((m[0], list(it.vals[k:k + n]), it.node,
                            path + (i,), l))
            k += n
    if not T.returns:
        raise AnalysisError('UNRECOGNISED-IDIOM %s: returns no text' % f.where)
    return out


def shell_refs(defs, exprs, params=()):
    """{shell variable: constant node} for the `$Y` / `${Y}` references in the
    string constants from which the expressions are computed (locals expanded
    by their definitions, flow-insensitively: what the value *may* hold)"""
    out, seen, todo = {}, set(), list(exprs)
    while todo:
        e = todo.pop()
        for n in ast.walk(e):
            if isinstance(n, ast.Constant) and isinstance(n.value, str):
                for m in SH_REF_RE.finditer(n.value):
                    out.setdefault(m.group(1), n)
            elif isinstance(n, ast.Name) and n.id in defs and \
                    n.id not in seen and n.id not in params:
                seen.add(n.id)
                todo += defs[n.id]
    return out


def r10_11(prog, rep, rid='R10.11'):
    rep.rule(rid, 'an `export X=` line of the RP environment whose value may '
             'hold a reference `$Y` to a variable exported by the same text '
             'comes after the `export Y=` line', minimum=2)
    # (2 today: RP_TASK_SANDBOX and RP_PROF_TGT hold `$RP_PILOT_SANDBOX/..`)
    f = prog.method(EXE[0], EXE[1], '_get_rp_env')
    rep.saw(f)
    defs = local_defs(f.node)
    lines = export_lines_at(prog, f)
    exported = {}
    for name, vals, node, path, text in lines:
        exported.setdefault(name, []).append(path)
    for name, vals, node, path, text in lines:
        refs = shell_refs(defs, vals, f.params)
        own = text.split('export', 1)[1].split('=', 1)[1]
        q = False
        for i, ch in enumerate(own):
            # (a reference between single quotes is not expanded)
            if ch == "'":
                q = not q
            m = SH_REF_RE.match(own, i) if ch == '$' and not q else None
            if m and (i == 0 or own[i - 1] != '\\'):
                refs.setdefault(m.group(1), node)
        for y in sorted(refs):
            if y == name or y not in exported:
                continue
            pre = any(before(pb, path) is True for pb in exported[y])
            post = any(before(path, pb) is True for pb in exported[y])
            rep.check(pre or not post, rid, f,
                      'export %s (may hold $%s) follows export %s'
                      % (name, y, y), construct='export %s<$%s' % (name, y),
                      message='in %s the line `export %s=` precedes the line '
                      '`export %s=`, but its value may hold the reference '
                      '`$%s` (%s): the shell expands it when the export runs, '
                      'so %s is built from whatever %s was inherited from the '
                      'caller\'s environment, not from the value this script '
                      'sets' % (f.qual, name, y, y,
                                short(refs[y], 50), name, y),
                      loc=f.loc(node),
                      history='a rank started in an environment which does '
                      'not export %s (remote node, launcher which does not '
                      'forward the agent environment), task sandbox below '
                      'the pilot sandbox: $%s expands without the prefix '
                      '(RP_TASK_SANDBOX=/task.000001), `cd $RP_TASK_SANDBOX` '
                      'and the stdout redirect fail, the executable does not '
                      'run' % (y, name))


# ------------------------------------------------------------------------------
# R10.2 / R10.4  quoting (taint)
#
# tags:  C  the described container itself (list of arguments / env dict)
#        I / V / K  its items / values / keys view
#        raw  an element (argument, env value) as the user wrote it
#        key  a key of the env dict
#        rawj several raw elements joined into one string (quoting that string
#             afterwards yields one word, not the elements)
#        q    an element which went through the quoting function
#        cut  elements may be missing: on the way a filter looked at the value
#             of the element (comprehension `if`, filter(), a loop which adds
#             the element in one arm of a test on it only)
VIEWS = frozenset('CIVK')
CUT = 'cut'
ACCUM = ('append', 'extend', 'add', 'insert', 'appendleft', 'write')


def none_test(e):
    """`x is None` / `x is not None`: no filter on described data (the
    description types have no None elements)"""
    return isinstance(e, ast.Compare) and len(e.ops) == 1 and \
        isinstance(e.ops[0], (ast.Is, ast.IsNot)) and \
        isinstance(e.comparators[0], ast.Constant) and \
        e.comparators[0].value is None


def reads_element(test, names):
    """the test looks at the value of (something computed from) the element"""
    if isinstance(test, ast.BoolOp):
        return any(reads_element(v, names) for v in test.values)
    if isinstance(test, ast.UnaryOp) and isinstance(test.op, ast.Not):
        return reads_element(test.operand, names)
    if none_test(test):
        return False
    return bool(set(names_in(test)) & names)


def accumulated(stmts):
    """names which the statements add something to"""
    out = set()
    for s in stmts:
        for n in walk(s):
            if isinstance(n, ast.AugAssign):
                r = root_name(n.target)
                if r:
                    out.add(r)
            elif isinstance(n, ast.Call) and isinstance(n.func, ast.Attribute) \
                    and n.func.attr in ACCUM:
                r = root_name(n.func.value)
                if r:
                    out.add(r)
            elif isinstance(n, ast.Assign):
                for t in n.targets:
                    if isinstance(t, ast.Subscript):
                        r = root_name(t)
                        if r:
                            out.add(r)
            elif isinstance(n, (ast.Yield, ast.YieldFrom)):
                out.add('<yield>')
    return out


def jumps_on(body):
    return bool(body) and isinstance(body[-1], (ast.Continue, ast.Break))


def filtered_in_loop(loop):
    """names to which the body of the for loop adds under a test on the loop
    element: in one arm of an `if` only, or behind `if ..: continue`"""
    names = set(stores_in_target(loop.target))
    for _ in range(3):
        for n in walk(loop):
            if isinstance(n, ast.Assign) and set(names_in(n.value)) & names:
                for t in n.targets:
                    names |= set(stores_in_target(t))
    out = set()

    def block(stmts):
        for i, st in enumerate(stmts):
            if isinstance(st, ast.If) and reads_element(st.test, names):
                a, b = accumulated(st.body), accumulated(st.orelse)
                out.update(a ^ b)
                if jumps_on(st.body) and not st.orelse:
                    out.update(accumulated(stmts[i + 1:]))
                elif jumps_on(st.orelse):
                    out.update(accumulated(stmts[i + 1:]) - a)
                block(st.body)
                block(st.orelse)
            elif isinstance(st, (ast.If, ast.With, ast.Try)):
                for fld in ('body', 'orelse', 'finalbody'):
                    block(getattr(st, fld, []) or [])
                for h in getattr(st, 'handlers', []) or []:
                    block(h.body)
    block(loop.body)
    return out
STR_METHODS = {'strip', 'rstrip', 'lstrip', 'replace', 'lower', 'upper',
               'encode', 'decode', 'expandtabs', 'ljust', 'rjust', 'title'}
KEEP_FUNCS = {'list', 'tuple', 'sorted', 'reversed', 'set', 'iter', 'dict',
              'ru.as_list', 'as_list', 'enumerate', 'zip', 'filter', 'copy',
              'copy.copy', 'copy.deepcopy', 'deepcopy'}
NUM_FUNCS = {'len', 'int', 'float', 'bool', 'isinstance', 'any', 'all',
             'callable', 'type', 'id', 'hash'}
MUT = {'append', 'extend', 'insert', 'add', 'update', 'setdefault',
       'appendleft'}


def is_sanitizer(name):
    return name in SANITIZERS or name.endswith('.sh_quote') or \
        name.endswith('shlex.quote')


class Taint:

    def __init__(self, prog, K, key, kind):
        self.prog, self.K, self.key, self.kind = prog, K, key, kind
        self.mro = prog.mro(K) if K is not None else []
        self.memo = {}
        self.stack = set()
        self.source_reads = 0

    # --------------------------------------------------------------------------
    def run(self, f, ptaint=()):
        k = (f.where, ptaint)
        if k in self.memo:
            return self.memo[k]
        if k in self.stack:
            return frozenset()
        self.stack.add(k)
        env = {p: set(t) for p, t in ptaint}
        for _ in range(6):
            before = {a: set(b) for a, b in env.items()}
            self.scan(f, env)
            if env == before:
                break
        ret = set()
        for n in walk(f.node):
            if isinstance(n, ast.Return) and n.value is not None:
                ret |= self.ev(f, n.value, env)
            elif isinstance(n, (ast.Yield, ast.YieldFrom)) and \
                    n.value is not None:
                ret |= self.ev(f, n.value, env) | env.get('<yield>', set())
        self.stack.discard(k)
        self.memo[k] = frozenset(ret)
        self.last_env = env
        return self.memo[k]

    def scan(self, f, env):
        for n in walk(f.node):
            if isinstance(n, ast.Assign):
                v = self.ev(f, n.value, env)
                for t in n.targets:
                    self.bind(t, v, env)
            elif isinstance(n, ast.AugAssign):
                v = self.ev(f, n.value, env)
                if isinstance(n.op, ast.Add):
                    pass
                self.bind(n.target, v, env)
            elif isinstance(n, ast.AnnAssign) and n.value is not None:
                self.bind(n.target, self.ev(f, n.value, env), env)
            elif isinstance(n, ast.For):
                it = self.ev(f, n.iter, env)
                self.bind_iter(n.target, it, env)
                if it:
                    for name in filtered_in_loop(n):
                        if env.get(name):
                            env[name].add(CUT)
                        elif name == '<yield>':
                            env.setdefault('<yield>', set()).add(CUT)
            elif isinstance(n, ast.withitem) and n.optional_vars is not None:
                self.bind(n.optional_vars, self.ev(f, n.context_expr, env),
                          env)
            elif isinstance(n, ast.Call) and isinstance(n.func, ast.Attribute) \
                    and n.func.attr in MUT:
                v = set()
                for a in n.args:
                    v |= self.ev(f, a, env)
                r = root_name(n.func.value)
                if r and v:
                    env.setdefault(r, set()).update(v)

    def bind(self, target, v, env):
        if isinstance(target, ast.Name):
            if v:
                env.setdefault(target.id, set()).update(v)
        elif isinstance(target, (ast.Tuple, ast.List)):
            for e in target.elts:
                self.bind(e, v, env)
        elif isinstance(target, ast.Starred):
            self.bind(target.value, v, env)
        else:
            r = root_name(target)
            if r and r != 'self' and v:
                env.setdefault(r, set()).update(v)

    def elem(self, t):
        out = set(t) - VIEWS
        if 'C' in t:
            out.add('raw' if self.kind == 'list' else 'key')
        if 'V' in t:
            out.add('raw')
        if 'K' in t:
            out.add('key')
        return out

    def bind_iter(self, target, t, env):
        e = self.elem(t)
        if 'I' in t:
            if isinstance(target, (ast.Tuple, ast.List)) and \
                    len(target.elts) == 2:
                self.bind(target.elts[0], e | {'key'}, env)
                self.bind(target.elts[1], e | {'raw'}, env)
                return
            e |= {'key', 'raw'}
        self.bind(target, e, env)

    def stringify(self, t):
        out = set(t) - VIEWS
        if t & {'C', 'V', 'I'}:
            out.add('raw')
        if t & {'C', 'K', 'I'} and self.kind == 'dict':
            out.add('key')
        return out

    # --------------------------------------------------------------------------
    def ev(self, f, e, env):
        if e is None or isinstance(e, ast.Constant):
            return set()
        if isinstance(e, ast.Name):
            return set(env.get(e.id, ()))
        if const_key(e) == self.key and not isinstance(e, ast.Attribute):
            self.source_reads += 1
            return {'C'}
        if isinstance(e, ast.Subscript):
            b = self.ev(f, e.value, env)
            if b & VIEWS:
                if isinstance(e.slice, ast.Slice):
                    return b
                return (b - VIEWS) | {'raw'}
            return b
        if isinstance(e, ast.Attribute):
            return self.ev(f, e.value, env)
        if isinstance(e, ast.Call):
            return self.ev_call(f, e, env)
        if isinstance(e, ast.BinOp):
            l, r = self.ev(f, e.left, env), self.ev(f, e.right, env)
            if isinstance(e.op, ast.Mod):
                return self.stringify(l | r)
            return l | r
        if isinstance(e, ast.JoinedStr):
            t = set()
            for v in e.values:
                if isinstance(v, ast.FormattedValue):
                    t |= self.ev(f, v.value, env)
            return self.stringify(t)
        if isinstance(e, (ast.ListComp, ast.SetComp, ast.GeneratorExp,
                          ast.DictComp)):
            cut = False
            for g in e.generators:
                it = self.ev(f, g.iter, env)
                self.bind_iter(g.target, it, env)
                names = set(stores_in_target(g.target))
                if it and any(reads_element(t, names) for t in g.ifs):
                    cut = True
            if isinstance(e, ast.DictComp):
                res = self.ev(f, e.key, env) | self.ev(f, e.value, env)
            else:
                res = self.ev(f, e.elt, env)
            return res | {CUT} if cut and res else res
        if isinstance(e, ast.IfExp):
            return self.ev(f, e.body, env) | self.ev(f, e.orelse, env)
        if isinstance(e, ast.BoolOp):
            t = set()
            for v in e.values:
                t |= self.ev(f, v, env)
            return t
        if isinstance(e, (ast.Compare, ast.Lambda)):
            return set()
        if isinstance(e, ast.UnaryOp):
            return set() if isinstance(e.op, ast.Not) else \
                self.ev(f, e.operand, env)
        if isinstance(e, ast.Dict):
            t = set()
            for k, v in zip(e.keys, e.values):
                t |= self.ev(f, v, env)
                if k is not None:
                    t |= self.ev(f, k, env)
            return t
        t = set()
        for c in ast.iter_child_nodes(e):
            if isinstance(c, ast.expr):
                t |= self.ev(f, c, env)
        return t

    def ev_call(self, f, c, env):
        name = dotted(c.func)
        args = set()
        for a in c.args:
            args |= self.ev(f, a, env)
        for k in c.keywords:
            args |= self.ev(f, k.value, env)
        if is_sanitizer(name):
            res = set(args) - {'raw'}
            if 'raw' in args:
                res.add('q')
            if res & VIEWS:
                # the container as a whole is not an argument
                res = self.stringify(res)
            return res
        callee = self.prog.resolve_call(f, c, self.K)
        if callee is not None and callee.name != '__init__' and (
                callee.cls is None or callee.cls in self.mro):
            params = list(callee.params)
            via_obj = isinstance(c.func, ast.Attribute) and (
                (isinstance(c.func.value, ast.Name) and
                 c.func.value.id in ('self', 'cls')) or
                isinstance(c.func.value, ast.Call))
            if via_obj and not is_static(callee) and params:
                params = params[1:]
            pt = {}
            for i, a in enumerate(c.args):
                t = self.ev(f, a, env)
                if isinstance(a, ast.Starred) or i >= len(params):
                    for p in params:
                        pt.setdefault(p, set()).update(t)
                else:
                    pt.setdefault(params[i], set()).update(t)
            for k in c.keywords:
                t = self.ev(f, k.value, env)
                if k.arg in params:
                    pt.setdefault(k.arg, set()).update(t)
            key = tuple(sorted((p, frozenset(t)) for p, t in pt.items() if t))
            return set(self.run(callee, key))
        if isinstance(c.func, ast.Attribute):
            recv = self.ev(f, c.func.value, env)
            attr = c.func.attr
            if 'C' in recv and self.kind == 'dict':
                rest = recv - {'C'}
                if attr == 'items':
                    return rest | {'I'}
                if attr == 'values':
                    return rest | {'V'}
                if attr == 'keys':
                    return rest | {'K'}
                if attr in ('get', 'pop', 'setdefault'):
                    return rest | {'raw'} | args
            if 'C' in recv and attr in ('pop',):
                return (recv - {'C'}) | {'raw'}
            if attr == 'join':
                t = self.stringify(self.elem(args) if args & VIEWS else args)
                if 'raw' in t:
                    # several elements in one string: quoting it afterwards
                    # makes one word of them
                    t = (t - {'raw'}) | {'rawj'}
                return self.stringify(recv) | t
            if attr == 'format' or attr in STR_METHODS:
                return self.stringify(recv | args)
            if attr == 'copy':
                return recv
            return recv | args
        if name == 'map' and len(c.args) >= 2:
            # map(fn, xs): fn applied to every element
            t = set()
            for a in c.args[1:]:
                ta = self.ev(f, a, env)
                t |= self.elem(ta) if ta & VIEWS else ta
            fn = c.args[0]
            if is_sanitizer(dotted(fn)):
                if 'raw' in t:
                    t = (t - {'raw'}) | {'q'}
                return t
            if isinstance(fn, ast.Name) and fn.id in NUM_FUNCS:
                return set()
            return t
        if name in ('str', 'repr', 'format', 'ascii'):
            return self.stringify(args)
        if name in NUM_FUNCS:
            return set()
        if name in ('filter', 'itertools.filterfalse', 'filterfalse',
                    'itertools.takewhile', 'takewhile', 'itertools.dropwhile',
                    'dropwhile') and args:
            return args | {CUT}
        if name in KEEP_FUNCS:
            return args
        return args


LEAK = frozenset({'raw', 'rawj'}) | VIEWS


def quoted_only(t):
    return 'q' in t and not (t & LEAK)


CUT_HISTORY = ("arguments=['-n', '', 'last'] (an empty string is a word of "
               "its own: `grep -e ''`, `--prefix ''`): the executable is "
               "started with ['-n', 'last']")


def r10_2(prog, rep, classes, rid='R10.2', minimum=14, rid8=None):
    rep.rule(rid, "every element of td['arguments'] reaches the command of "
             'get_exec only through ru.sh_quote, and nowhere else does the '
             'executor put the arguments into a script', minimum=minimum)
    for K in classes:
        f = prog.find_method(K, 'get_exec')
        if f is None:
            continue
        rep.saw(f)
        T = Taint(prog, K, 'arguments', 'list')
        t = T.run(f)
        if rid8:
            rep.check(CUT not in t, rid8, f,
                      "%s.get_exec: every element of td['arguments'] is "
                      'rendered (no filter on the value of an element)'
                      % K.name, construct='arguments:filtered',
                      message="%s.get_exec: on the way from td['arguments'] "
                      'to the command a filter looks at the value of each '
                      'element (a comprehension `if`, filter(), or a loop '
                      'which adds the element in one arm of a test on it '
                      'only): arguments for which the test fails are dropped, '
                      'the executable does not get exactly the described '
                      'argument list' % K.name, loc=f.loc(),
                      history=CUT_HISTORY)
        if quoted_only(t):
            rep.ok(rid, f, "%s.get_exec: td['arguments'] reach the command "
                   'element-wise through the quoting function' % K.name,
                   f.loc())
        elif t & LEAK:
            rep.bad(rid, f, 'arguments:unquoted',
                    "%s.get_exec: elements of td['arguments'] reach the "
                    'returned command without passing ru.sh_quote: the shell '
                    'splits and expands them' % K.name, f.loc(),
                    history="arguments=['a b', \"it's\"]: the executable "
                    "receives ['a', 'b', ...] or the script has a syntax "
                    'error')
        else:
            rep.bad(rid, f, 'arguments:missing',
                    "%s.get_exec: td['arguments'] do not reach the returned "
                    'command at all' % K.name, f.loc(),
                    history="arguments=['-x']: the executable is started "
                    'without arguments')
    # the executor itself does not add a second copy
    P = prog.cls(*POPEN)
    funcs, _ = reach(prog, P, ['_create_exec_script', '_create_launch_script'])
    n = 0
    for w in sorted(funcs):
        f = funcs[w]
        if not any(const_key(x) == 'arguments' for x in walk(f.node,
                                                              nested=True)):
            continue
        n += 1
        T = Taint(prog, P, 'arguments', 'list')
        t = T.run(f)
        env = getattr(T, 'last_env', {})
        leak = t & LEAK
        rep.check(not leak, rid, f,
                  "%s reads td['arguments'] but does not return them unquoted"
                  % f.qual, construct='arguments:unquoted',
                  message="%s puts td['arguments'] into the script text "
                  'without ru.sh_quote' % f.qual, loc=f.loc(),
                  history="arguments=['a b']: the script contains `a b` as "
                  'two words')
    if not n:
        rep.ok(rid, 'agent/executing/base.py', 'the script builders of the '
               "executor never read td['arguments'] themselves (%d functions): "
               'launcher.get_exec is the only way in' % len(funcs))


def r10_4(prog, rep, rid='R10.4'):
    rep.rule(rid, "the values of td['environment'] reach the `export K=V` "
             'lines of _get_task_env only through a quoting function',
             minimum=1)
    P = prog.cls(*POPEN)
    f = prog.find_method(P, '_get_task_env')
    if f is None:
        raise AnalysisError('anchor _get_task_env not found')
    rep.saw(f)
    T = Taint(prog, P, 'environment', 'dict')
    t = T.run(f)
    if t & {'raw', 'rawj', 'C', 'V', 'I'}:
        rep.bad(rid, f, 'environment:values-unquoted',
                "%s writes the values of td['environment'] into `export "
                'K="V"` lines as they are: a double quote, `$`, a back-tick '
                'or a backslash in a value is interpreted by the shell '
                'instead of being handed to the task' % f.qual, f.loc(),
                history="environment={'A': 'x\"y'}: the task sees A=xy; "
                "{'A': '$HOME'}: the task sees the expanded directory")
    elif 'q' in t:
        rep.ok(rid, f, "td['environment'] values pass the quoting function",
               f.loc())
    else:
        rep.bad(rid, f, 'environment:missing',
                "%s does not put the values of td['environment'] into the "
                'script at all' % f.qual, f.loc(),
                history="environment={'A': '1'}: $A is unset in the task")


# ------------------------------------------------------------------------------
# R10.8  completeness: everything which is described is rendered
#
# "exactly the described argument list, the described environment variables":
# besides HOW an element is rendered (R10.2, R10.4) it must be rendered at all.
#   * no filter on the value of an element on the way from td['arguments'] /
#     td['environment'] to the text (Taint tag `cut`, reported from r10_2 for
#     the arguments of every launcher class);
#   * the `export K=V` lines of td['environment'] are emitted whenever
#     td['environment'] is set: the tests they are control dependent on read
#     td['environment'] only - not another field of the description (an
#     `elif` behind the named_env block makes them its alternative).
#
def r10_8_rule(rep, rid='R10.8'):
    rep.rule(rid, "every element of td['arguments'] and every entry of "
             "td['environment'] is rendered: no filter on the value of an "
             "element on its way into the text, and the environment exports "
             "are control dependent on td['environment'] only (not on "
             'named_env or another field of the description)', minimum=15)


def r10_8(prog, rep, rid='R10.8'):
    P = prog.cls(*POPEN)
    f = prog.find_method(P, '_get_task_env')
    if f is None:
        raise AnalysisError('anchor _get_task_env not found')
    rep.saw(f)
    # ---- no filter on the entries
    T = Taint(prog, P, 'environment', 'dict')
    t = T.run(f)
    rep.check(CUT not in t, rid, f, "every entry of td['environment'] is "
              'rendered (no filter on key or value)',
              construct='environment:filtered',
              message="%s: a filter looks at each entry of "
              "td['environment'] (comprehension `if`, filter(), a loop "
              'which adds the line in one arm of a test on the entry '
              'only): variables for which the test fails are not '
              'exported' % f.qual, loc=f.loc(),
              history="environment={'EMPTY': '', 'N': 0}: the task finds "
              'the variables unset instead of empty / 0')
    # ---- the export lines depend on td['environment'] only
    Tx, its = script_items(prog, f)
    L = Leaves(f.node, rename=task_rename(f))
    g = cfg_of(f)
    smap = I.stmt_node_map(g)
    want = 'task/description/environment'
    n = 0
    for it, pa in its:
        src = set()
        for v in ([it.node] if it.kind in ('opaque', 'call') else it.vals):
            src |= L.of(v)
        if want not in src:
            continue
        node = smap.get(id(it.node))
        if node is None:
            raise AnalysisError('UNRECOGNISED-IDIOM %s: statement of the '
                                'export piece `%s`' % (f.where,
                                                       short(it.node, 40)))
        n += 1
        other, unknown = set(), set()
        for tid, lab in guards(g, node.id):
            for pth in L.of(g.nodes[tid].ast):
                if pth == want or pth.startswith(want + '/'):
                    continue
                if pth.startswith('task/description/'):
                    other.add((pth, short(g.nodes[tid].ast, 40), lab))
                else:
                    unknown.add((pth, short(g.nodes[tid].ast, 40)))
        if unknown and not other:
            raise AnalysisError('UNRECOGNISED-IDIOM %s: the export lines of '
                                "td['environment'] are emitted under a test "
                                'on %s' % (f.where, sorted(unknown)[:3]))
        rep.check(not other, rid, f,
                  "the `export` lines of td['environment'] are control "
                  "dependent on td['environment'] only",
                  construct='environment:guard',
                  message="in %s the `export K=V` lines of td['environment'] "
                  'are only emitted when the test `%s` is %s: that test reads '
                  '%s, another field of the description - for tasks on the '
                  'other side of it the described environment variables are '
                  'not set at all' % (
                      f.qual, sorted(other)[0][1] if other else '',
                      'true' if other and sorted(other)[0][2] == 'T'
                      else 'false',
                      sorted(other)[0][0] if other else ''),
                  loc=f.loc(it.node),
                  history="named_env='ve1' together with environment="
                  "{'FOO': 'bar'}: no `export FOO=..` line is written, the "
                  'task runs with FOO unset (or with the value the '
                  'activation script of the named environment left)')
    if not n:
        raise AnalysisError('UNRECOGNISED-IDIOM %s: no piece of the returned '
                            "text is fed by td['environment']" % f.where)


# ------------------------------------------------------------------------------
# R10.3  section order, redirect, exit code, per-rank case
#
def self_call(node, name):
    """the call self.<name>(..) inside expression node, or None"""
    for c in calls_in(node):
        if call_name(c) == 'self.' + name:
            return c
    return None


def sig_of(prog, f, call):
    callee = prog.resolve_call(f, call)
    pos = None
    if callee is not None:
        ps = [p for p in callee.params if p != 'self']
        if 'sig' in ps:
            pos = ps.index('sig')
    e = kwarg(call, 'sig', pos)
    return e.value if isinstance(e, ast.Constant) else None


def text_of(it):
    return it.text or ''


def has_call(name, sig=None, prog=None, f=None):
    def pred(it):
        c = self_call(it.node, name)
        if c is None:
            return False
        if sig is None:
            return True
        return sig_of(prog, f, c) == sig
    return pred


def starts(prefix, strip=False):
    def pred(it):
        t = text_of(it)
        return (t.lstrip() if strip else t).startswith(prefix)
    return pred


def exit_stmt(it):
    """the piece of text starts with an `exit` statement (R10.7 decides what
    the script exits with)"""
    return re.match(r'exit(\s|$)', text_of(it)) is not None


def script_items(prog, f):
    T = TextEval(prog, f)
    its = T.items()
    if not its:
        raise AnalysisError('UNRECOGNISED-IDIOM %s: cannot tell which text '
                            'this function writes or returns' % f.where)
    return T, its


def sections(prog, rep, rid, f, spec, what):
    """spec: [(label, predicate on Item)] in the required order"""
    T, its = script_items(prog, f)
    rep.saw(f)
    rep.stat('R10.3 pieces', len(its))
    found = []
    for label, pred in spec:
        hits = [(it, pa) for it, pa in its if pred(it)]
        rep.check(bool(hits), rid, f,
                  '%s: section `%s` is part of the script text' % (what, label),
                  construct='%s:%s:missing' % (what, label),
                  message='%s no longer adds the section `%s` to the text of '
                  'the %s which it writes' % (f.qual, label, what),
                  loc=f.loc(),
                  history='a task which relies on that section (its '
                  'environment, its pre/post commands, the executable) runs '
                  'without it')
        found.append((label, hits))
    for (la, A), (lb, B) in zip(found, found[1:]):
        if not A or not B:
            continue
        okay = all(before(pa, pb) is not False
                   for _, pa in A for _, pb in B)
        rep.check(okay, rid, f, '%s: `%s` comes before `%s`' % (what, la, lb),
                  construct='%s:%s<%s' % (what, la, lb),
                  message='in %s the section `%s` is added to the %s '
                  'before `%s`: the script runs them in the wrong order'
                  % (f.qual, lb, what, la), loc=f.loc(B[0][0].node),
                  history=ORDER_HISTORY.get((la, lb), 'any task: `%s` runs '
                                            'before `%s`' % (lb, la)))
    return T, its


ORDER_HISTORY = {
    ('pre_exec', 'exec'): "pre_exec=['module load x']: the executable starts "
        'before its module is loaded',
    ('exec', 'post_exec'): "post_exec=['tar czf out.tgz *']: the archive is "
        'made before the executable ran',
    ('task env', 'pre_exec'): "environment={'A': '1'}, pre_exec=['echo $A']: "
        'pre_exec sees A unset',
    ('rp env', 'rank ids'): 'RP_TASK_ID is unset when the rank id section runs',
    ('pre_launch', 'launch'): "pre_launch=['mkdir d']: the ranks start before "
        'the directory exists',
    ('launch', 'post_launch'): 'post_launch commands run before the ranks',
    ('cd sandbox', 'launcher env'): 'the launcher environment script is '
        'sourced outside of the task sandbox; relative paths break',
}


def r10_3(prog, rep, rid='R10.3'):
    rep.rule(rid, 'exec script: rp env, rank ids, task env, pre_exec, '
             'executable, post_exec in this order; launch script: rp env, cd '
             'to the sandbox, launcher env, pre_launch, launch command with '
             'stdout/stderr redirect, post_launch; exit codes are taken right '
             'after the command; the per-rank case covers range(n_ranks)',
             minimum=48)
    # (58 today; a section which is dropped is reported missing and takes the
    # two order obligations with its neighbours with it - hence the slack)
    # ---- exec script
    f = prog.method(EXE[0], EXE[1], '_create_exec_script')
    spec = [('rp env',    has_call('_get_rp_env')),
            ('rank ids',  has_call('_get_rank_ids')),
            ('task env',  has_call('_get_task_env')),
            ('pre_exec',  has_call('_get_prep_exec', 'pre_exec', prog, f)),
            ('exec',      has_call('_get_exec')),
            ('post_exec', has_call('_get_prep_exec', 'post_exec', prog, f)),
            ('exit',      exit_stmt)]
    sections(prog, rep, rid, f, spec, 'exec script')
    Lf = Leaves(f.node, rename=task_rename(f))
    for c in calls_in(f.node):
        if call_name(c) == 'self._get_prep_exec':
            callee = prog.resolve_call(f, c)
            ps = [p for p in callee.params if p != 'self']
            a = kwarg(c, ps[1], 1)
            got = Lf.of(a)
            rep.check('task/description/ranks' in got, rid, f,
                      "the rank count of the per-rank switch (%s) is "
                      "td['ranks']" % sig_of(prog, f, c), construct=c,
                      message='_get_prep_exec is called with %s as number of '
                      'ranks, not with the described number'
                      % (sorted(got) or 'a constant'), loc=f.loc(c),
                      history='ranks=4 with per-rank pre_exec: the case '
                      'statement does not have the branches 0..3')
    # ---- launch script
    f = prog.method(EXE[0], EXE[1], '_create_launch_script')
    spec = [('rp env',       has_call('_get_rp_env')),
            ('cd sandbox',   starts('cd ', strip=True)),
            ('launcher env', has_call('_get_launch_env')),
            ('pre_launch',   has_call('_get_prep_launch', 'pre_launch', prog, f)),
            ('launch',       has_call('_get_launch')),
            ('post_launch',  has_call('_get_prep_launch', 'post_launch', prog,
                                      f)),
            ('exit',         exit_stmt)]
    T, its = sections(prog, rep, rid, f, spec, 'launch script')
    Lf = Leaves(f.node, rename=task_rename(f))
    for it, pa in its:
        if not starts('cd ', strip=True)(it):
            continue
        txt = it.text.strip()
        okc = bool(re.match(r'^cd \$RP_TASK_SANDBOX/?\s*($|\|\||&&|;)', txt))
        if not okc and it.vals:
            got = set()
            for x in it.vals:
                got |= Lf.of(x)
            okc = 'task/task_sandbox_path' in got
        rep.check(okc, rid, f, 'the launch script changes to the task '
                  'sandbox', construct='launch script:cd',
                  message='the launch script changes to `%s`, not to the task '
                  'sandbox' % txt, loc=f.loc(it.node),
                  history='a task writing ./out.dat: the file lands outside '
                  'of its sandbox')
    launch_cmd(prog, rep, rid)
    exec_cmd(prog, rep, rid)
    rank_case(prog, rep, rid)
    std_names(prog, rep, rid)
    task_env_order(prog, rep, rid)


def placeholders(fmt):
    """text before each % conversion of a format string"""
    out = []
    pos = 0
    for m in FMT_RE.finditer(fmt.replace('%%', '\0\0')):
        out.append(fmt[pos:m.start()])
        pos = m.end()
    return out


def bound_from(f, call):
    """names which hold (an element of) the result of `call`"""
    out = set()
    for n in walk(f.node, nested=True):
        if isinstance(n, ast.Assign) and any(x is call for x in walk(n.value)):
            for t in n.targets:
                out |= set(stores_in_target(t))
        elif isinstance(n, (ast.For, ast.comprehension)) and \
                any(x is call for x in walk(n.iter)):
            out |= set(stores_in_target(n.target))
    return out


def follows(its, idx, prefix):
    """the text directly after item idx starts with `prefix`: either the rest
    of the item's own text after its last line, or the next item in the same
    sequence"""
    it, pa = its[idx]
    nxt = [x for x, pb in its[idx + 1:] if before(pa, pb) is True]
    return bool(nxt) and text_of(nxt[0]).startswith(prefix)


def launch_cmd(prog, rep, rid):
    f = prog.method(EXE[0], EXE[1], '_get_launch')
    rep.saw(f)
    T, its = script_items(prog, f)
    L = Leaves(f.node, rename=task_rename(f))
    d = Deps(f.node)
    ps = [p for p in f.params if p != 'self']
    calls = [c for c in calls_in(f.node) if isinstance(c.func, ast.Attribute)
             and c.func.attr == 'get_launch_cmds']
    if len(calls) != 1:
        raise AnalysisError('UNRECOGNISED-IDIOM %s: %d get_launch_cmds calls'
                            % (f.where, len(calls)))
    c = calls[0]
    a0, a1 = kwarg(c, 'task', 0), kwarg(c, 'exec_path', 1)
    g0 = L.of(a0)
    g1 = d.expr_depends(a1) if a1 is not None else set()
    others = set(ps[1:]) - {root_name(c.func.value)}
    rep.check(g0 == {'task'} and bool(others & g1), rid, f,
              'get_launch_cmds is asked for this task and its exec script',
              construct=c,
              message='`%s`: the launcher is not given the task and the path '
              'of the exec script which was just written' % short(c, 70),
              loc=f.loc(c),
              history='the launch command starts something else than the '
              'exec script of the task')
    names = bound_from(f, c)
    for _ in range(3):
        for n in walk(f.node, nested=True):
            if isinstance(n, (ast.For, ast.comprehension)) and \
                    root_name(n.iter) in names:
                names |= set(stores_in_target(n.target))
    cmd_idx = [i for i, (it, pa) in enumerate(its)
               if any(x is c for x in walk(it.node)) or
               any(isinstance(x, ast.Name) and x.id in names
                   for v in ([it.node] if it.kind == 'opaque' else it.vals)
                   for x in walk(v))]
    rep.check(bool(cmd_idx), rid, f, 'the launcher command is part of the '
              'launch section', construct='launch:cmd',
              message='the result of get_launch_cmds does not reach the text '
              'returned by %s' % f.qual, loc=f.loc(),
              history='any task: the launch script starts nothing')
    red = [i for i, (it, pa) in enumerate(its)
           if '1>' in text_of(it) or '2>' in text_of(it)]
    if len(red) != 1 or its[red[0]][0].kind != 'fmt':
        rep.bad(rid, f, 'launch:redirect', '%s does not redirect stdout '
                '(1>) and stderr (2>) of the launch command in one formatted '
                'piece (%d found)' % (f.qual, len(red)), f.loc(),
                history="stdout='my.out': the output does not land in my.out")
        return
    ri = red[0]
    rit, rpa = its[ri]
    pre = placeholders(rit.text)
    if len(pre) != len(rit.vals):
        raise AnalysisError('UNRECOGNISED-IDIOM %s: redirect format' % f.where)
    # (the short form starts with $RP_TASK_SANDBOX, the long one with the
    # sandbox path: the same file)
    want = {'1>': 'task/stdout_file', '2>': 'task/stderr_file'}
    for fd, src in sorted(want.items()):
        idx = [i for i, t in enumerate(pre)
               if re.search(re.escape(fd) + r'\s*$', t)]
        got = set()
        for i in idx:
            got |= L.of(rit.vals[i])
        got = {x[:-6] if x.endswith('_short') else x for x in got}
        rep.check(len(idx) == 1 and got == {src}, rid, f,
                  'the launch command redirects %s to %s' % (fd, src),
                  construct='launch:redirect:%s' % fd,
                  message='the launch command redirects `%s` to %s instead of '
                  '%s' % (fd, sorted(got) or 'nothing', src),
                  loc=f.loc(rit.node),
                  history="stdout='o.txt', stderr='e.txt': the streams land "
                  'in the wrong file')
    for i in cmd_idx:
        rep.check(before(its[i][1], rpa) is not False, rid, f,
                  'the redirect closes the launch command', construct=
                  'launch:cmd<redirect', message='the redirect piece is '
                  'added before the launcher command', loc=f.loc(rit.node),
                  history='the launch script is not valid shell')
    tail = rit.text.rsplit('\n', 1)[-1] if not rit.text.endswith('\n') else ''
    after = rit.text.split('2>', 1)[-1].split('\n', 1)
    rest = after[1] if len(after) > 1 else ''
    okx = rest.startswith('RP_RET=$?') if rest.strip() else \
        follows(its, ri, 'RP_RET=$?')
    rep.check(okx, rid, f, 'RP_RET=$? directly follows the launch command',
              construct='launch:RP_RET',
              message='in %s the text after the launch command is not '
              '`RP_RET=$?`: $? is that of another command by then' % f.qual,
              loc=f.loc(rit.node),
              history='the ranks fail with exit code 1: the launch script '
              'still exits with 0 and the task is DONE')


def exec_cmd(prog, rep, rid):
    f = prog.method(EXE[0], EXE[1], '_get_exec')
    rep.saw(f)
    T, its = script_items(prog, f)
    L = Leaves(f.node, rename=task_rename(f))
    calls = [c for c in calls_in(f.node) if isinstance(c.func, ast.Attribute)
             and c.func.attr == 'get_exec']
    if len(calls) != 1:
        raise AnalysisError('UNRECOGNISED-IDIOM %s: %d get_exec calls'
                            % (f.where, len(calls)))
    c = calls[0]
    names = bound_from(f, c)
    hit = [it for it, pa in its
           if any(x is c for x in walk(it.node)) or
           any(isinstance(x, ast.Name) and x.id in names
               for v in ([it.node] if it.kind == 'opaque' else it.vals)
               for x in walk(v))]
    rep.check(bool(hit) and L.of(kwarg(c, 'task', 0)) == {'task'}, rid, f,
              'the command of launcher.get_exec(task) is part of the exec '
              'section', construct=c,
              message='the command line built by the launcher for this task '
              'does not reach the text returned by %s' % f.qual, loc=f.loc(c),
              history='any task: the exec script does not start the '
              'executable')
    waits = [i for i, (it, pa) in enumerate(its)
             if re.search(r'(^|\n)wait\b', text_of(it))]
    if len(waits) != 1:
        raise AnalysisError('UNRECOGNISED-IDIOM %s: %d `wait` pieces'
                            % (f.where, len(waits)))
    wi = waits[0]
    wit = its[wi][0]
    tail = re.split(r'(?:^|\n)wait\b', wit.text, 1)[1].split('\n', 1)
    rest = tail[1] if len(tail) > 1 else ''
    if rest.strip():
        okx = rest.lstrip('\n').startswith('RP_RET=$?')
    else:
        okx = follows(its, wi, 'RP_RET=$?')
    rep.check(okx, rid, f, 'RP_RET=$? directly follows `wait $RP_RANK_PID`',
              construct='exec:RP_RET',
              message='in %s the text after `wait` is not `RP_RET=$?`: the '
              'exit code recorded is not that of the executable' % f.qual,
              loc=f.loc(wit.node),
              history='the executable exits with 3: the exec script exits '
              'with 0 and the task is DONE')


def is_range_loop(lp):
    return isinstance(lp.iter, ast.Call) and dotted(lp.iter.func) == 'range'


def keyed_label_loops(f, labels):
    """the innermost `for` loops around the case label pieces which are no
    range() loops and whose iterable does not (transitively) depend on the
    rank count parameter: the set of branches is chosen by other data"""
    ps = [p for p in f.params if p not in ('self', 'cls')]
    if len(ps) < 2:
        return []
    ids = {id(x) for x in labels}
    around = [n for n in walk(f.node) if isinstance(n, ast.For) and
              any(id(x) in ids for x in walk(n))]
    around = [lp for lp in around
              if not any(o is not lp and any(x is o for x in walk(lp))
                         for o in around)]
    d = Deps(f.node)
    return [lp for lp in around if not is_range_loop(lp) and
            ps[1] not in d.expr_depends(lp.iter)]


def rank_loop(f, labels=()):
    """the loop which emits one `N)` branch of the per-rank case per
    iteration: the range() loop of f - if there are several, the one around
    the case label pieces `labels` (ast nodes)"""
    loops = [n for n in walk(f.node) if isinstance(n, ast.For) and
             isinstance(n.iter, ast.Call) and dotted(n.iter.func) == 'range']
    if len(loops) > 1 and labels:
        ids = {id(x) for x in labels}
        around = [lp for lp in loops
                  if any(id(x) in ids for x in walk(lp))]
        # (the innermost one: a loop around the rank loop is no rank loop)
        around = [lp for lp in around
                  if not any(o is not lp and any(x is o for x in walk(lp))
                             for o in around)]
        if around:
            loops = around
    if not loops and labels:
        # no range() loop at all: the loop around the case labels is the
        # rank switch when what it iterates cannot be `all ranks` - it does
        # not derive from the rank count (2nd parameter).  rank_case decides.
        loops = keyed_label_loops(f, labels)
    if len(loops) != 1:
        raise AnalysisError('UNRECOGNISED-IDIOM %s: %d range() loops'
                            % (f.where, len(loops)))
    lp = loops[0]
    rv = stores_in_target(lp.target)
    if len(rv) != 1:
        raise AnalysisError('UNRECOGNISED-IDIOM %s: rank loop target' % f.where)
    inner = set()
    for n in walk(lp):
        if isinstance(n, ast.For) and n is not lp:
            inner |= set(stores_in_target(n.target))
    return lp, rv[0], inner


def case_labels(prog, f):
    """the `N)` label pieces of the per-rank case in the text of f"""
    T, its = script_items(prog, f)
    return [it for it, pa in its if it.kind == 'fmt' and
            re.match(r'^\s*%[ds]\)\s*$', it.text) and in_loop(pa)]


def rank_scopes(prog, f):
    """[(function, node whose body runs once per rank, {name: key shape})]:
    the range(n_ranks) loop of f, and the helpers it hands the rank index (or
    a key derived from it: `str(rank_id)`) to - the extract-method form of
    the loop body.  The shape (see key_shape) of a name says how the value it
    holds derives from the rank index."""
    lp, rv, _ = rank_loop(f, [it.node for it in case_labels(prog, f)])
    top = {rv: ('INT', '<i>')}
    out = [(f, lp, top, frozenset())]
    seen = {f.where}
    work = [(f, lp, top, frozenset())]
    while work:
        h, body, hidx, helems = work.pop()
        # names of this scope which hold one element of an iteration: the
        # targets of its inner loops, and the parameters which were handed one
        hinner = set(helems)
        for n in walk(body):
            if isinstance(n, (ast.For, ast.comprehension)) and n is not body:
                hinner |= set(stores_in_target(n.target))
        for c in calls_in(body):
            g = prog.resolve_call(h, c)
            if g is None or g.cls is None or g.where in seen:
                continue
            ps = [p for p in g.params if p not in ('self', 'cls')]
            idx = {}
            pairs = [(ps[i], a) for i, a in enumerate(c.args)
                     if i < len(ps) and not isinstance(a, ast.Starred)]
            pairs += [(k.arg, k.value) for k in c.keywords if k.arg in ps]
            for p, a in pairs:
                sh = key_shape(h.node, a, hidx)
                if sh is not None and sh[1] != 'const':
                    idx[p] = sh
            if idx:
                # (the helper may be handed the entry itself: the element of
                # the caller's iteration over the entries arrives as parameter)
                elems = frozenset(p for p, a in pairs if isinstance(a, ast.Name)
                                  and a.id in hinner and p not in idx)
                seen.add(g.where)
                out.append((g, g.node, idx, elems))
                if len(seen) < 6:
                    work.append((g, g.node, idx, elems))
    return out


def rank_lookups(scope):
    """[(node, key expr, kind)] of the per-rank lookups / replications in one
    rank scope: .get(k) / [k] on an element of an iteration, and the dict
    which wraps a plain entry"""
    g, body, idx, elems = scope
    inner = set(elems)
    for n in walk(body):
        if isinstance(n, ast.For) and n is not body:
            inner |= set(stores_in_target(n.target))
    wrapped = {id(a.value) for a in walk(body) if isinstance(a, ast.Assign)
               and any(isinstance(t, ast.Name) and t.id in inner
                       for t in a.targets)}
    out = []
    for n in walk(body):
        if isinstance(n, ast.Call) and isinstance(n.func, ast.Attribute) and \
                n.func.attr == 'get' and n.args and \
                root_name(n.func.value) in inner:
            out.append((n, n.args[0], 'lookup'))
        elif isinstance(n, ast.Subscript) and isinstance(n.ctx, ast.Load) \
                and isinstance(n.value, ast.Name) and n.value.id in inner:
            out.append((n, n.slice, 'lookup'))
        elif isinstance(n, ast.Dict) and len(n.keys) == 1 and \
                n.keys[0] is not None and id(n) in wrapped:
            out.append((n, n.keys[0],
                        'replication of a plain string entry'))
    return out


def rank_case(prog, rep, rid):
    f = prog.method(EXE[0], EXE[1], '_get_prep_exec')
    rep.saw(f)
    d = Deps(f.node)
    ps = [p for p in f.params if p != 'self']
    nr = ps[1]
    labels = case_labels(prog, f)
    if not labels:
        raise AnalysisError('UNRECOGNISED-IDIOM %s: no case label piece'
                            % f.where)
    lp, rv, _inner = rank_loop(f, [it.node for it in labels])
    a = lp.iter.args if is_range_loop(lp) else []
    full = (len(a) == 1 and unparse(a[0]) == nr) or \
        (len(a) in (2, 3) and isinstance(a[0], ast.Constant) and
         a[0].value == 0 and unparse(a[1]) == nr and
         (len(a) == 2 or (isinstance(a[2], ast.Constant) and a[2].value == 1)))
    rep.check(full, rid, f, 'the per-rank case has one branch for each of '
              'range(%s)' % nr, construct=lp.iter,
              message='the per-rank switch iterates `%s`, not range(%s): some '
              'ranks have no branch and skip their pre/post commands'
              % (short(lp.iter, 40), nr), loc=f.loc(lp),
              history="ranks=2, pre_exec=[{'0': 'a', '1': 'b'}]: one of the "
              'ranks never runs its command')
    for it in labels:
        rep.check(any(rv in d.expr_depends(v) for v in it.vals), rid, f,
                  'the case label is the rank id', construct=it.node,
                  message='the case label `%s` is not the loop\'s rank id'
                  % short(it.node, 50), loc=f.loc(it.node),
                  history='ranks=2: both branches carry the same label')
    # lookups and replication are keyed by the rank id
    n_look = 0
    for scope in rank_scopes(prog, f):
        g, body, idx = scope[:3]
        dg = d if g is f else Deps(g.node)
        for n, key, kind in rank_lookups(scope):
            if kind == 'lookup':
                n_look += 1
            rep.check(bool(set(idx) & dg.expr_depends(key)), rid, g,
                      'per-rank %s is keyed by the rank id' % kind,
                      construct=n,
                      message='`%s`: the %s inside the rank loop does not use '
                      'the rank id: commands run on the wrong ranks'
                      % (short(n, 50), kind), loc=g.loc(n),
                      history="ranks=2, pre_exec=['x', {'1': 'y'}]: `x` runs "
                      'on one rank only (or `y` on both)')
    if not n_look:
        raise AnalysisError('UNRECOGNISED-IDIOM %s: per-rank lookup not found '
                            'inside the rank loop' % f.where)


# -- stdout / stderr file names (part of R10.3)
STD_KEYS = ('stdout_file', 'stdout_file_short', 'stderr_file',
            'stderr_file_short')


def literal_rows(fnode, it, defs, _seen=()):
    """the element expressions of an iteration over a literal sequence: list
    or tuple display, zip() of such displays, items() of a dict display, a
    local which is bound once to one of these; None otherwise"""
    if isinstance(it, (ast.List, ast.Tuple)):
        if it.elts and not any(isinstance(e, ast.Starred) for e in it.elts):
            return list(it.elts)
        return None
    if isinstance(it, ast.Name) and it.id not in _seen:
        vals = defs.get(it.id, [])
        if len(vals) == 1 and not any(
                isinstance(c.func, ast.Attribute) and
                isinstance(c.func.value, ast.Name) and c.func.value.id == it.id
                for c in calls_in(fnode)):
            return literal_rows(fnode, vals[0], defs, _seen + (it.id,))
        return None
    if isinstance(it, ast.Call) and not it.keywords:
        name = dotted(it.func)
        if name in ('list', 'tuple', 'iter') and len(it.args) == 1:
            return literal_rows(fnode, it.args[0], defs, _seen)
        if name == 'zip' and it.args:
            cols = [literal_rows(fnode, a, defs, _seen) for a in it.args]
            if all(cols) and len({len(c) for c in cols}) == 1:
                return [ast.Tuple(elts=list(r), ctx=ast.Load())
                        for r in zip(*cols)]
            return None
        if isinstance(it.func, ast.Attribute) and it.func.attr == 'items' \
                and not it.args and isinstance(it.func.value, ast.Dict) and \
                it.func.value.keys and None not in it.func.value.keys:
            d = it.func.value
            return [ast.Tuple(elts=[k, v], ctx=ast.Load())
                    for k, v in zip(d.keys, d.values)]
    return None


def bind_target(target, elem):
    """{name: expr} of one iteration `target = elem`; None if not matched"""
    if isinstance(target, ast.Name):
        return {target.id: elem}
    if isinstance(target, (ast.Tuple, ast.List)) and \
            isinstance(elem, (ast.Tuple, ast.List)) and \
            len(target.elts) == len(elem.elts):
        out = {}
        for t, e in zip(target.elts, elem.elts):
            b = bind_target(t, e)
            if b is None:
                return None
            out.update(b)
        return out
    return None


def unrolled_assigns(fnode, defs):
    """[(assign statement, {name: expr})]: the assignments of a function, those
    in the body of a loop over a literal sequence once per element with the
    loop variables bound to the element"""
    out = []

    def rec(stmts, env):
        for s in stmts:
            if isinstance(s, (ast.FunctionDef, ast.AsyncFunctionDef,
                              ast.ClassDef)):
                continue
            if isinstance(s, ast.For):
                rows = literal_rows(fnode, s.iter, defs)
                binds = [bind_target(s.target, e) for e in rows or []]
                if binds and None not in binds:
                    for b in binds:
                        rec(s.body, dict(env, **b))
                    rec(s.orelse, env)
                    continue
            if isinstance(s, ast.Assign):
                out.append((s, env))
            for fld in ('body', 'orelse', 'finalbody'):
                rec(getattr(s, fld, None) or [], env)
            for h in getattr(s, 'handlers', None) or []:
                rec(h.body, env)
            for c in getattr(s, 'cases', None) or []:
                rec(c.body, env)
    rec(fnode.body, {})
    return out


def key_text(e, env, defs, _seen=()):
    """the string a key expression evaluates to (constants, loop variables of
    an unrolled iteration, locals bound once, `+`, `%`, f-strings, format)"""
    if isinstance(e, ast.Constant):
        return e.value if isinstance(e.value, str) else None
    if isinstance(e, ast.Name):
        if e.id in _seen:
            return None
        if e.id in env:
            return key_text(env[e.id], env, defs, _seen + (e.id,))
        vals = defs.get(e.id, [])
        if len(vals) == 1:
            return key_text(vals[0], env, defs, _seen + (e.id,))
        return None
    if isinstance(e, ast.BinOp) and isinstance(e.op, ast.Add):
        a = key_text(e.left, env, defs, _seen)
        b = key_text(e.right, env, defs, _seen)
        return a + b if a is not None and b is not None else None
    if isinstance(e, ast.BinOp) and isinstance(e.op, ast.Mod):
        fmt = key_text(e.left, env, defs, _seen)
        args = e.right.elts if isinstance(e.right, ast.Tuple) else [e.right]
        vals = [key_text(a, env, defs, _seen) for a in args]
        if fmt is None or None in vals or \
                FMT_RE.sub('', fmt).count('%') or \
                len(FMT_RE.findall(fmt)) != len(vals) or \
                any(m != '%s' for m in FMT_RE.findall(fmt)):
            return None
        return fmt % tuple(vals)
    if isinstance(e, ast.JoinedStr):
        out = ''
        for v in e.values:
            if isinstance(v, ast.Constant):
                out += str(v.value)
            elif v.format_spec is None and v.conversion == -1:
                s = key_text(v.value, env, defs, _seen)
                if s is None:
                    return None
                out += s
            else:
                return None
        return out
    if isinstance(e, ast.Call) and isinstance(e.func, ast.Attribute) and \
            e.func.attr == 'format' and not e.keywords:
        fmt = key_text(e.func.value, env, defs, _seen)
        vals = [key_text(a, env, defs, _seen) for a in e.args]
        if fmt is None or None in vals or fmt.count('{}') != len(vals) or \
                fmt.replace('{}', '').count('{') or \
                fmt.replace('{}', '').count('}'):
            return None
        return fmt.format(*vals)
    return None


def relevant_tests(h, rstmts, vals, defs):
    """the tests of helper h which decide what the value expressions `vals`
    of its return statements evaluate to: the tests the return statements are
    control dependent on, and those which the bindings of the locals the
    values are computed from are control dependent on"""
    g = cfg_of(h)
    smap = I.stmt_node_map(g)
    names, todo = set(), list(vals)
    while todo:
        e = todo.pop()
        for n in ast.walk(e):
            if isinstance(n, ast.Name) and n.id in defs and \
                    n.id not in names:
                names.add(n.id)
                todo += defs[n.id]
    stmts = list(rstmts)
    for n in walk(h.node):
        if isinstance(n, (ast.Assign, ast.AugAssign, ast.AnnAssign)):
            tg = n.targets if isinstance(n, ast.Assign) else [n.target]
            if any(x in names for t in tg for x in stores_in_target(t)):
                stmts.append(n)
        elif isinstance(n, ast.For) and \
                any(x in names for x in stores_in_target(n.target)):
            stmts.append(n)
    out, seen = [], set()
    for st in stmts:
        # (a `for` statement is mapped by its target / iterable)
        node = smap.get(id(st.target if isinstance(st, ast.For) else st))
        if node is None:
            raise AnalysisError('UNRECOGNISED-IDIOM %s: statement `%s`'
                                % (h.where, short(st, 50)))
        for tid, lab in guards(g, node.id):
            t = g.nodes[tid].ast
            if id(t) not in seen:
                seen.add(id(t))
                out.append(t)
    return out


class CallLeaves(Leaves):
    """Leaves which looks through calls of helpers defined in the package: the
    sources of `self._helper(a, b)` are the sources of the helper's return
    values with its parameters replaced by the sources of the arguments (not
    simply all arguments).  `tests` collects the tests of those helpers the
    same way: [(helper, test expr, sources in terms of this function)]"""

    def __init__(self, prog, f, rename=None, depth=0):
        Leaves.__init__(self, f.node, rename=rename)
        self.prog, self.f, self.depth = prog, f, depth
        self.tests = []

    def bound(self, env):
        """a copy in which the names of env are bound to the given exprs"""
        other = CallLeaves.__new__(CallLeaves)
        other.__dict__.update(self.__dict__)
        other.defs = dict(self.defs)
        for k, v in env.items():
            other.defs[k] = [v]
        other.tests = []
        return other

    def of(self, expr, seen=frozenset()):
        if isinstance(expr, ast.Call):
            got = self.through(expr, seen)
            if got is not None:
                return got
        return Leaves.of(self, expr, seen)

    def through(self, call, seen, comp=None):
        if self.depth >= 3:
            return None
        fn = call.func
        if not (isinstance(fn, ast.Name) or (
                isinstance(fn, ast.Attribute) and
                isinstance(fn.value, ast.Name) and
                fn.value.id in ('self', 'cls'))):
            return None
        h = self.prog.resolve_call(self.f, call)
        if h is None or h.node is self.f.node:
            return None
        a = h.node.args
        if a.vararg or a.kwarg or \
                any(isinstance(x, ast.Starred) for x in call.args) or \
                any(k.arg is None for k in call.keywords):
            return None
        rets = [r.value for r in walk(h.node)
                if isinstance(r, ast.Return) and r.value is not None]
        if not rets or any(isinstance(n, (ast.Yield, ast.YieldFrom))
                           for n in walk(h.node)):
            return None
        ps = [x.arg for x in a.posonlyargs + a.args]
        if isinstance(fn, ast.Attribute) and ps and not is_static(h):
            ps = ps[1:]
        if len(call.args) > len(ps):
            return None
        bind = dict(zip(ps, call.args))
        names = set(ps) | {x.arg for x in a.kwonlyargs}
        for k in call.keywords:
            if k.arg not in names:
                return None
            bind[k.arg] = k.value
        Lh = CallLeaves(self.prog, h, depth=self.depth + 1)

        def mapped(leaves):
            out = set()
            for leaf in leaves:
                head, _, rest = leaf.partition('/')
                if head in bind:
                    for x in self.of(bind[head], seen):
                        out.add(x + '/' + rest if rest else x)
                elif head in names:
                    continue          # the default value: a constant
                else:
                    out.add(leaf)
            return out
        # (one component of a helper which returns tuples of that length)
        rstmts = [r for r in walk(h.node)
                  if isinstance(r, ast.Return) and r.value is not None]
        if comp is not None and all(
                isinstance(r.value, ast.Tuple) and
                len(r.value.elts) == comp[1] and
                not any(isinstance(x, ast.Starred) for x in r.value.elts)
                for r in rstmts):
            vals = [r.value.elts[comp[0]] for r in rstmts]
        else:
            vals = [r.value for r in rstmts]
        got = set()
        for v in vals:
            got |= mapped(Lh.of(v))
        for t in relevant_tests(h, rstmts, vals, Lh.defs):
            self.tests.append((h, t, mapped(Lh.of(t))))
        for hh, t, lv in Lh.tests:
            self.tests.append((hh, t, mapped(lv)))
        return got

    def of_component(self, expr, i, n):
        """sources of element i of the n-tuple which expr evaluates to"""
        if isinstance(expr, (ast.Tuple, ast.List)) and len(expr.elts) == n:
            return self.of(expr.elts[i])
        if isinstance(expr, ast.Call):
            got = self.through(expr, frozenset(), (i, n))
            if got is not None:
                return got
        return self.of(expr)


def std_names(prog, rep, rid):
    f = prog.method(POPEN[0], POPEN[1], '_handle_task')
    rep.saw(f)
    L0 = CallLeaves(prog, f, rename=task_rename(f))
    g = cfg_of(f)
    smap = I.stmt_node_map(g)
    seen = set()
    for a, env in unrolled_assigns(f.node, L0.defs):
        pairs = []
        for t in a.targets:
            if isinstance(t, ast.Subscript):
                pairs.append((t, a.value, None))
            elif isinstance(t, (ast.Tuple, ast.List)) and not any(
                    isinstance(x, ast.Starred) for x in t.elts):
                pairs += [(x, a.value, (i, len(t.elts)))
                          for i, x in enumerate(t.elts)]
            elif isinstance(t, (ast.Tuple, ast.List)):
                pairs += [(x, a.value, None) for x in t.elts]
        for t, v, comp in pairs:
            k = key_text(t.slice, env, L0.defs) \
                if isinstance(t, ast.Subscript) else None
            if k not in STD_KEYS:
                continue
            seen.add(k)
            which = k[:6]
            L = L0.bound(env)
            got = L.of(v) if comp is None else L.of_component(v, *comp)
            req = 'task/description/%s' % which
            other = 'task/description/%s' % ('stderr' if which == 'stdout'
                                             else 'stdout')
            okay = req in got and other not in got
            if not okay and any(req.startswith(x + '/') for x in got):
                raise AnalysisError('UNRECOGNISED-IDIOM %s: `%s` is computed '
                                    'from the task description as a whole (%s)'
                                    % (f.where, short(a, 50), sorted(got)))
            rep.check(okay, rid, f,
                      "task['%s'] derives from td['%s']" % (k, which),
                      construct='%s:%s' % (k, which),
                      message="task['%s'] is computed from %s, not from the "
                      "described %s name" % (k, sorted(got), which),
                      loc=f.loc(a),
                      history="stdout='o.txt', stderr='e.txt': the streams "
                      'are written to the wrong file')
            # same-variable agreement: which form the name of one stream takes
            # (relative to the sandbox / absolute) is decided by a test on
            # that name, not on the name of the other stream - in this
            # function and in the helpers which compute the value
            node = smap.get(id(a))
            if node is None:
                raise AnalysisError('UNRECOGNISED-IDIOM %s: statement `%s`'
                                    % (f.where, short(a, 50)))
            # (tests which the store, or the binding of a local the value is
            # computed from, is control dependent on)
            tests = [(f, t, L.of(t))
                     for t in relevant_tests(f, [a], [v], L.defs)]
            tests += L.tests
            wrong = [(h, t) for h, t, lv in tests
                     if other in lv and req not in lv]
            rep.check(not wrong, rid, f,
                      "task['%s'] is chosen by tests on the %s name only"
                      % (k, which), construct='%s:%s:guard' % (k, which),
                      message="task['%s'] (`%s`) is set under the test `%s`%s, "
                      "which looks at the described %s name, not at the %s "
                      "name: whether the %s file is taken relative to the "
                      "sandbox is decided by the other stream's name"
                      % (k, short(a, 60),
                         short(wrong[0][1], 40) if wrong else '',
                         ' of %s' % wrong[0][0].qual
                         if wrong and wrong[0][0] is not f else '',
                         'stderr' if which == 'stdout' else 'stdout', which,
                         which), loc=f.loc(a),
                      history="stdout='out.txt' (relative) with stderr="
                      "'/tmp/x/err.txt' (absolute), or the other way round: "
                      'the redirect target becomes `$RP_TASK_SANDBOX//tmp/x/'
                      'err.txt` (no such directory: the ranks are not '
                      'started) resp. the stream lands outside of the '
                      'recorded file')
    if seen != set(STD_KEYS):
        raise AnalysisError('UNRECOGNISED-IDIOM %s: stdout/stderr file names '
                            'are not set here (%s)' % (
                                f.where, ', '.join(sorted(set(STD_KEYS) - seen))))


# ------------------------------------------------------------------------------
# R10.3 (cont.)  the named environment is activated before the task's own
# environment settings
#
def task_env_order(prog, rep, rid):
    f = prog.method(EXE[0], EXE[1], '_get_task_env')
    rep.saw(f)
    T, its = script_items(prog, f)
    L = Leaves(f.node, rename=task_rename(f))

    def leaves(it):
        out = set()
        for v in ([it.node] if it.kind in ('opaque', 'call') else it.vals):
            out |= L.of(v)
        return out
    named = [(it, pa) for it, pa in its
             if any(isinstance(c.func, ast.Attribute) and
                    c.func.attr == 'get_task_named_env'
                    for c in calls_in(it.node)) or
             'task/description/named_env' in leaves(it)]
    exports = [(it, pa) for it, pa in its
               if 'task/description/environment' in leaves(it)]
    if not named or not exports:
        rep.ok(rid, f, 'task env: named environment and environment exports '
               'are not both generated here (nothing to order)', f.loc())
        return
    okay = all(before(pa, pb) is not False
               for _, pa in named for _, pb in exports)
    rep.check(okay, rid, f,
              "task env: the named environment is sourced before the "
              "td['environment'] exports",
              construct='task env:named env<exports',
              message="in %s the `export K=V` lines of td['environment'] are "
              'emitted before the line which sources the named '
              'environment: the activation script unsets / overrides '
              'variables, so the described environment does not hold when '
              'the executable starts' % f.qual,
              loc=f.loc(named[0][0].node),
              history="named_env='ve1' whose activation sets PATH and unsets "
              "PYTHONPATH, environment={'PYTHONPATH': '/x', 'PATH': '/y'}: the "
              'task runs with the values of the activation script')


# ------------------------------------------------------------------------------
# R10.5  producer / consumer agreement on the keys of per-rank entries
#
def index_vars(fnode):
    """names which hold a rank *index* (int): first target of an
    enumerate() iteration, target of a range() iteration"""
    out = set()
    for n in walk(fnode, nested=True):
        if not isinstance(n, (ast.For, ast.comprehension)):
            continue
        it = n.iter
        if isinstance(it, ast.Call) and dotted(it.func) == 'enumerate' and \
                isinstance(n.target, (ast.Tuple, ast.List)) and \
                n.target.elts and isinstance(n.target.elts[0], ast.Name):
            out.add(n.target.elts[0].id)
        elif isinstance(it, ast.Call) and dotted(it.func) == 'range' and \
                isinstance(n.target, ast.Name):
            out.add(n.target.id)
    return out


def key_shape(fnode, e, idx, _seen=()):
    """('STR'|'INT', form) of a key expression: the type of the key and how it
    derives from the rank index `<i>`; None if not recognised"""
    if isinstance(e, ast.Constant):
        if isinstance(e.value, bool):
            return None
        if isinstance(e.value, str):
            return ('STR', 'const')
        if isinstance(e.value, int):
            return ('INT', 'const')
        return None
    if isinstance(e, ast.Name):
        if e.id in idx:
            return idx[e.id] if isinstance(idx, dict) else ('INT', '<i>')
        if e.id in _seen:
            return None
        vals = local_defs(fnode).get(e.id, [])
        if len(vals) == 1:
            return key_shape(fnode, vals[0], idx, _seen + (e.id,))
        return None
    if isinstance(e, ast.Call) and isinstance(e.func, ast.Name) and \
            len(e.args) == 1 and not e.keywords:
        inner = key_shape(fnode, e.args[0], idx, _seen)
        if inner is None:
            return None
        if e.func.id in ('str', 'repr'):
            return ('STR', inner[1]) if inner[0] == 'INT' else inner
        if e.func.id == 'int':
            return ('INT', inner[1])
        return None
    if isinstance(e, ast.BinOp) and isinstance(e.op, ast.Mod) and \
            isinstance(e.left, ast.Constant) and e.left.value in ('%d', '%s',
                                                                  '%i'):
        inner = key_shape(fnode, e.right, idx, _seen)
        return ('STR', inner[1]) if inner else None
    if isinstance(e, ast.JoinedStr) and len(e.values) == 1 and \
            isinstance(e.values[0], ast.FormattedValue) and \
            e.values[0].format_spec is None:
        inner = key_shape(fnode, e.values[0].value, idx, _seen)
        return ('STR', inner[1]) if inner else None
    if isinstance(e, ast.BinOp) and isinstance(e.op, (ast.Add, ast.Sub)) and \
            isinstance(e.right, ast.Constant) and \
            isinstance(e.right.value, int):
        inner = key_shape(fnode, e.left, idx, _seen)
        if inner and inner[0] == 'INT' and inner[1] == '<i>':
            if e.right.value == 0:
                return inner
            return ('INT', '<i>%s%d' % ('+' if isinstance(e.op, ast.Add)
                                        else '-', e.right.value))
    return None


def shapes_agree(a, b):
    if a[0] != b[0]:
        return False
    if 'const' in (a[1], b[1]):
        return True                 # an explicitly named rank
    return a[1] == b[1]


def consumer_keys(prog):
    """(function, lookup shape, [(node, shape)] of the replication dicts) of
    _get_prep_exec (and the helpers which run once per rank)"""
    f = prog.method(EXE[0], EXE[1], '_get_prep_exec')
    lookups, repl = [], []
    for scope in rank_scopes(prog, f):
        g, body, idx = scope[:3]
        for n, key, kind in rank_lookups(scope):
            names = {x: ('INT', '<i>') for x in index_vars(g.node)}
            names.update(idx)
            sh = key_shape(g.node, key, names)
            (lookups if kind == 'lookup' else repl).append((n, sh))
    shapes = {sh for _, sh in lookups}
    if not lookups or None in shapes or len(shapes) != 1:
        raise AnalysisError('UNRECOGNISED-IDIOM %s: per-rank lookup key not '
                            'recognised (%s)' % (f.where, [
                                short(n, 40) for n, _ in lookups]))
    return f, shapes.pop(), repl


def dict_keys_of(f, name):
    """[(node, key expr)] of the dict which local `name` holds: literal,
    comprehension, and `name[key] = ..` stores; None if it is no dict built
    here"""
    vals = local_defs(f.node).get(name, [])
    out = []
    is_dict = False
    for v in vals:
        if isinstance(v, ast.Dict):
            is_dict = True
            out += [(v, k) for k in v.keys if k is not None]
        elif isinstance(v, ast.DictComp):
            is_dict = True
            out.append((v, v.key))
        elif isinstance(v, ast.Call) and dotted(v.func) in ('dict',
                'collections.OrderedDict', 'OrderedDict') and not v.args:
            is_dict = True
            out += [(v, ast.Constant(value=k.arg)) for k in v.keywords
                    if k.arg]
    if not is_dict:
        return None
    for n in walk(f.node, nested=True):
        tg = []
        if isinstance(n, ast.Assign):
            tg = n.targets
        elif isinstance(n, ast.AugAssign):
            tg = [n.target]
        for t in tg:
            if isinstance(t, ast.Subscript) and isinstance(t.value, ast.Name) \
                    and t.value.id == name:
                out.append((n, t.slice))
    return out


def r10_5(prog, rep, rid='R10.5'):
    rep.rule(rid, 'per-rank entries which the executor itself adds to '
             "td['pre_exec'] / td['post_exec'] are keyed the way "
             '_get_prep_exec looks them up (type and form of the key derived '
             'from the rank index)', minimum=2)
    fc, want, repl = consumer_keys(prog)
    rep.saw(fc)
    rep.ok(rid, fc, '_get_prep_exec looks per-rank entries up with one key '
           'form: %s of %s' % want, fc.loc())
    for n, sh in repl:
        if sh is None:
            raise AnalysisError('UNRECOGNISED-IDIOM %s: key of `%s`'
                                % (fc.where, short(n, 50)))
        rep.check(shapes_agree(sh, want), rid, fc,
                  'the dict which replicates a plain string entry is keyed '
                  'like the lookup (%s of %s)' % want, construct=n,
                  message='%s wraps a plain string entry into `%s` but looks '
                  'entries up with a key of another type / form: the command '
                  'is emitted for no rank' % (fc.qual, short(n, 50)),
                  loc=fc.loc(n),
                  history="pre_exec=['module load x', {'0': 'y'}]: `module "
                  'load x` runs on no rank')
    P = prog.cls(*POPEN)
    funcs, _ = reach(prog, P, ['_create_exec_script', '_create_launch_script'])
    n_prod = 0
    for w in sorted(funcs):
        f = funcs[w]
        idx = index_vars(f.node)
        for c in calls_in(f.node, nested=True):
            if not (isinstance(c.func, ast.Attribute) and
                    c.func.attr in ('append', 'insert', 'extend') and c.args
                    and const_key(c.func.value) in ('pre_exec', 'post_exec')):
                continue
            arg = c.args[-1]
            keys = None
            if isinstance(arg, ast.Name):
                keys = dict_keys_of(f, arg.id)
            elif isinstance(arg, ast.Dict):
                keys = [(arg, k) for k in arg.keys if k is not None]
            elif isinstance(arg, ast.DictComp):
                keys = [(arg, arg.key)]
            if keys is None:
                continue                      # a plain command (string)
            rep.saw(f)
            for node, k in keys:
                n_prod += 1
                sh = key_shape(f.node, k, idx)
                if sh is None:
                    raise AnalysisError(
                        'UNRECOGNISED-IDIOM %s: key `%s` of the per-rank '
                        'entry added to %s' % (f.where, short(k, 40),
                                               const_key(c.func.value)))
                rep.check(shapes_agree(sh, want), rid, f,
                          "per-rank entry added to td['%s'] is keyed like the "
                          'lookup of _get_prep_exec (%s of %s)'
                          % (const_key(c.func.value), want[0], want[1]),
                          construct='%s:key' % short(c, 60),
                          message="%s adds a per-rank dict to td['%s'] whose "
                          'keys are %s (%s) while _get_prep_exec looks '
                          'entries up with %s keys (%s): no rank finds its '
                          'entry, the commands are silently dropped'
                          % (f.qual, const_key(c.func.value), sh[0], sh[1],
                             want[0], want[1]),
                          loc=f.loc(node),
                          history='2 ranks with one GPU each: neither rank '
                          'exports CUDA_VISIBLE_DEVICES, both use GPU 0')
    rep.stat('R10.5 producer keys', n_prod)
    if not n_prod:
        raise AnalysisError('R10.5: the executor adds no per-rank dict to '
                            "td['pre_exec'] any more (recogniser blind?)")


# ------------------------------------------------------------------------------
# R10.6  every described pre/post command is guarded by itself
#
# `a; b || rp_error sig` guards only `b`.  What decides the property is how
# many commands of the described list stand in front of one `|| rp_error` of
# the generated text:  the value in the command slot of a guard line must be
# ONE element of the command list (the variable of an iteration over it, an
# indexed element), never the list as a whole and never several elements fused
# into one string by join / + / % / accumulation - unless they are fused by
# `&&`, which hands every failure on to the guard.
#
# Multiplicity tags of a value (class Mult):
#   KEY     the name of the section ('pre_exec', ..: the `sig` argument)
#   COLL    a collection of commands: td[sig], ru.as_list(..), the value of a
#           per-rank dict (one command or a list of them)
#   ELEM    one element of a collection: one command, or at the top level one
#           entry (a command or a per-rank dict)
#   ('fused', sep)  several commands in one string, separated by `sep`
#                   (None: a list rendered by str())
#   ('view', k)     .items() / .values() of a per-rank dict
#   UNK     derived from the commands in a way the evaluator does not know
#
PREP_KEYS = ('pre_exec', 'post_exec', 'pre_launch', 'post_launch')
PREP_ROOTS = ('_get_prep_exec', '_get_prep_launch')
GUARD_RE = re.compile(r'\|\|\s*rp_error\b')
KEY, COLL, ELEM, UNK = 'key', 'coll', 'elem', 'unknown'
M_STR = STR_METHODS | STR_PASS | {'format', 'center', 'zfill', 'capitalize',
                                  'swapcase', 'casefold', 'removeprefix',
                                  'removesuffix'}
M_NONE = NUM_FUNCS | {'range', 'print', 'hasattr', 'min', 'max', 'sum',
                      'ord', 'abs'}
M_KEEP = KEEP_FUNCS | {'frozenset', 'map'}


def derived(t):
    """tags which say: this value carries described commands"""
    return {x for x in t if x != KEY}


def is_fused(x):
    return isinstance(x, tuple) and x[0] == 'fused'


def flatten_add(e):
    if isinstance(e, ast.BinOp) and isinstance(e.op, ast.Add):
        return flatten_add(e.left) + flatten_add(e.right)
    return [e]


class Mult:

    def __init__(self, prog, f, env=None, depth=0, memo=None, consts=None,
                 outer=None):
        self.prog, self.f, self.depth = prog, f, depth
        self.env = env or {}
        # the evaluator of the function f is nested in: the names f does not
        # bind itself are the locals of that function (closure)
        self.outer = outer
        self.consts = consts or {}  # parameter -> constant text it is bound to
        self.memo = memo if memo is not None else {}
        self.params = set(f.params)
        self.defs = {}
        self.encl = {}
        self._scan(f.node, ())

    # -- definitions of the local names, with the loops around them
    def _add(self, name, kind, value, node, pos=None):
        self.defs.setdefault(name, []).append((kind, value, node, pos))

    def _target(self, t, kind, value, node):
        if isinstance(t, ast.Name):
            self._add(t.id, kind, value, node)
        elif isinstance(t, (ast.Tuple, ast.List)):
            if kind == 'assign' and isinstance(value, (ast.Tuple, ast.List)) \
                    and len(value.elts) == len(t.elts):
                for a, b in zip(t.elts, value.elts):
                    self._target(a, 'assign', b, node)
                return
            for i, x in enumerate(t.elts):
                for nm in stores_in_target(x):
                    self._add(nm, 'iter' if kind == 'iter' else 'unpack',
                              value, node, (i, len(t.elts)))
        elif isinstance(t, ast.Starred):
            self._target(t.value, 'unpack', value, node)

    def _scan(self, node, loops):
        for n in ast.iter_child_nodes(node):
            if isinstance(n, (ast.FunctionDef, ast.AsyncFunctionDef,
                              ast.Lambda, ast.ClassDef)):
                continue
            self.encl[id(n)] = loops
            if isinstance(n, ast.Assign):
                for t in n.targets:
                    self._target(t, 'assign', n.value, n)
            elif isinstance(n, ast.AnnAssign) and n.value is not None:
                self._target(n.target, 'assign', n.value, n)
            elif isinstance(n, ast.NamedExpr):
                self._target(n.target, 'assign', n.value, n)
            elif isinstance(n, ast.AugAssign) and isinstance(n.target,
                                                             ast.Name):
                self._add(n.target.id, 'aug' if isinstance(n.op, ast.Add)
                          else 'unpack', n.value, n)
            elif isinstance(n, (ast.For, ast.AsyncFor, ast.comprehension)):
                self._target(n.target, 'iter', n.iter, n)
            elif isinstance(n, ast.Call) and isinstance(n.func, ast.Attribute) \
                    and isinstance(n.func.value, ast.Name) and n.args and \
                    n.func.attr in ('append', 'extend', 'insert', 'add',
                                    'appendleft'):
                self._add(n.func.value.id, 'extend' if n.func.attr == 'extend'
                          else 'append', n.args[-1], n)
            inner = loops + (n,) if isinstance(n, (ast.For, ast.AsyncFor,
                                                   ast.While)) else loops
            self._scan(n, inner)

    # -- tag algebra
    @staticmethod
    def select(t):
        """an index / key selects out of t"""
        out = set()
        for x in t:
            if x == COLL:
                out.add(ELEM)
            elif x == ELEM:
                out.add(COLL)
            elif is_fused(x):
                out.add(x)
            elif x != KEY:
                out.add(UNK)
        return out

    @staticmethod
    def collect(t):
        """a list is made of values t"""
        out = set()
        for x in t:
            if x in (ELEM, COLL):
                out.add(COLL)
            elif is_fused(x):
                out.add(x)
            elif x != KEY:
                out.add(UNK)
        return out

    @staticmethod
    def elem(t, pos=None):
        """iteration over t binds (position pos of) the target"""
        out = set()
        for x in t:
            if x == COLL:
                out.add(ELEM)
            elif is_fused(x):
                out.add(x)
            elif isinstance(x, tuple) and x[0] == 'view':
                if x[1] == 'values':
                    out.add(COLL)
                elif x[1] == 'items' and pos is not None and pos[1] == 2:
                    if pos[0] == 1:
                        out.add(COLL)
                else:
                    out.add(UNK)
            elif x != KEY:
                out.add(UNK)
        return out

    def fuse(self, parts, seen, listcat=False):
        """parts: ('t', text) | ('v', expr) in text order: one string made
        of them"""
        out = set()
        carriers = []           # (index, tags)
        for i, p in enumerate(parts):
            if p[0] != 'v':
                continue
            t = derived(self.ev(p[1], seen))
            if t:
                carriers.append((i, t))
        if not carriers:
            return out
        allt = set()
        for _, t in carriers:
            allt |= t
        if listcat and allt == {COLL}:
            return {COLL}                       # list + list
        for x in allt:
            if is_fused(x):
                out.add(x)
            elif x == COLL:
                out.add(('fused', None))
            elif x != ELEM:
                out.add(UNK)
        ne = [i for i, t in carriers if ELEM in t]
        if len(ne) == 1 and not out:
            out.add(ELEM)
        elif len(ne) == 1:
            pass                                # (already fused / unknown)
        elif len(ne) > 1:
            for a, b in zip(ne, ne[1:]):
                sep = ''.join(p[1] if p[0] == 't' else '\0'
                              for p in parts[a + 1:b])
                out.add(('fused', sep) if '\0' not in sep else UNK)
        return out

    def const_text(self, e):
        if isinstance(e, ast.Constant) and isinstance(e.value, str):
            return e.value
        if isinstance(e, ast.Name):
            ds = self.defs.get(e.id, [])
            if len(ds) == 1 and ds[0][0] == 'assign' and \
                    e.id not in self.params:
                return self.const_text(ds[0][1])
            if not ds and e.id in self.params and e.id in self.consts:
                return self.consts[e.id]
        if isinstance(e, (ast.Name, ast.Attribute)):
            v = self.prog.fold(self.f.module, e, self.f.cls)
            return v if isinstance(v, str) else None
        if isinstance(e, ast.BinOp) and isinstance(e.op, ast.Add):
            a, b = self.const_text(e.left), self.const_text(e.right)
            return a + b if a is not None and b is not None else None
        return None

    def accumulates(self, name, node):
        """the `name += ..` at node adds to what earlier iterations of a loop
        around it have put there"""
        for lp in self.encl.get(id(node), ()):
            reset = False
            for kind, v, n, pos in self.defs.get(name, []):
                if kind == 'assign' and any(x is n for x in walk(lp)):
                    reset = True
            if not reset:
                return True
        return False

    # -- names
    def name(self, nm, seen):
        if nm in seen:
            return set()
        out = set()
        if nm in self.params:
            out |= set(self.env.get(nm, ()))
        ds = self.defs.get(nm, [])
        if not ds and nm not in self.params and self.outer is not None:
            return self.outer.name(nm, frozenset())     # a closure variable
        s2 = seen | {nm}
        carrying = 0
        augs = []
        for kind, v, node, pos in ds:
            if kind == 'assign':
                t = self.ev(v, s2)
                carrying += bool(derived(t))
                out |= t
            elif kind == 'iter':
                out |= self.elem(self.ev(v, s2), pos)
            elif kind == 'unpack':
                if derived(self.ev(v, s2)):
                    out.add(UNK)
            elif kind == 'append':
                out |= self.collect(self.ev(v, s2))
            elif kind == 'extend':
                t = self.ev(v, s2)
                out |= {COLL if x == COLL else x if is_fused(x) else UNK
                        for x in derived(t)}
            elif kind == 'aug':
                t = self.ev(v, s2)
                if derived(t):
                    carrying += 1
                    augs.append((v, node, t))
        for v, node, t in augs:
            if t == {COLL}:
                out.add(COLL)                   # list += list
            elif carrying > 1 or self.accumulates(nm, node):
                texts = [self.const_text(x) for x in flatten_add(v)]
                sep = ''.join(x for x in texts if x)
                out |= {x for x in t if is_fused(x) or x == UNK}
                out.add(('fused', sep))
            else:
                out |= t
        return out

    # -- expressions
    def is_key(self, e, seen):
        if isinstance(e, ast.Constant):
            return e.value in PREP_KEYS
        if isinstance(e, ast.IfExp):
            return self.is_key(e.body, seen) and self.is_key(e.orelse, seen)
        return self.ev(e, seen) == {KEY}

    def ev(self, e, seen=frozenset()):
        if e is None or isinstance(e, ast.Constant):
            return set()
        if isinstance(e, ast.Name):
            return self.name(e.id, seen)
        if isinstance(e, ast.Subscript):
            b = derived(self.ev(e.value, seen))
            if isinstance(e.slice, ast.Slice):
                return b
            if not b and self.is_key(e.slice, seen):
                return {COLL}                   # td[sig]
            return self.select(b)
        if isinstance(e, ast.Attribute):
            return {UNK} if derived(self.ev(e.value, seen)) else set()
        if isinstance(e, ast.Call):
            return self.call(e, seen)
        if isinstance(e, ast.BinOp) and isinstance(e.op, ast.Add):
            return self.fuse([('t', x.value) if isinstance(x, ast.Constant)
                              and isinstance(x.value, str) else ('v', x)
                              for x in flatten_add(e)], seen, listcat=True)
        if isinstance(e, ast.BinOp) and isinstance(e.op, ast.Mod):
            args = e.right.elts if isinstance(e.right, ast.Tuple) \
                else [e.right]
            raw = self.const_text(e.left)
            convs = list(FMT_RE.finditer(raw.replace('%%', '\0\0'))) \
                if raw is not None else []
            if raw is None or len(convs) != len(args):
                # unknown format text: unknown separators
                parts = []
                for a in args:
                    parts += [('v', a), ('v', e.left)]
                return self.fuse(parts[:-1], seen)
            parts, pos = [], 0
            for m, a in zip(convs, args):
                parts += [('t', raw[pos:m.start()]), ('v', a)]
                pos = m.end()
            return self.fuse(parts + [('t', raw[pos:])], seen)
        if isinstance(e, ast.BinOp):
            t = derived(self.ev(e.left, seen) | self.ev(e.right, seen))
            return {UNK} if t else set()
        if isinstance(e, ast.JoinedStr):
            parts = [('t', str(v.value)) if isinstance(v, ast.Constant)
                     else ('v', v.value) for v in e.values]
            return self.fuse(parts, seen)
        if isinstance(e, ast.IfExp):
            return self.ev(e.body, seen) | self.ev(e.orelse, seen)
        if isinstance(e, ast.BoolOp):
            out = set()
            for v in e.values:
                out |= self.ev(v, seen)
            return out
        if isinstance(e, (ast.Compare, ast.Lambda)):
            return set()
        if isinstance(e, ast.UnaryOp):
            return set() if isinstance(e.op, ast.Not) else \
                self.ev(e.operand, seen)
        if isinstance(e, ast.NamedExpr):
            return self.ev(e.value, seen)
        if isinstance(e, (ast.ListComp, ast.SetComp, ast.GeneratorExp)):
            return self.collect(self.ev(e.elt, seen))
        if isinstance(e, (ast.List, ast.Tuple, ast.Set)):
            out = set()
            for x in e.elts:
                out |= self.collect(self.ev(x, seen))
            return out
        if isinstance(e, ast.Starred):
            return self.ev(e.value, seen)
        if isinstance(e, (ast.Dict, ast.DictComp)):
            vals = e.values if isinstance(e, ast.Dict) else [e.value]
            t = set()
            for v in vals:
                t |= derived(self.ev(v, seen))
            if not t:
                return set()
            out = {x for x in t if is_fused(x)}
            if t - {ELEM, COLL} - out:
                out.add(UNK)
            return out or {ELEM}                # shaped like a per-rank entry
        t = set()
        for c in ast.iter_child_nodes(e):
            if isinstance(c, ast.expr):
                t |= derived(self.ev(c, seen))
        return {UNK} if t else set()

    def call(self, c, seen):
        name = dotted(c.func)
        fn = c.func
        argt = set()
        for a in c.args:
            argt |= self.ev(a, seen)
        for k in c.keywords:
            argt |= self.ev(k.value, seen)
        if name in M_NONE:
            return set()
        if isinstance(fn, ast.Attribute) and fn.attr == 'join' and \
                len(c.args) == 1:
            sep = self.const_text(fn.value)
            a = c.args[0]
            if isinstance(a, (ast.List, ast.Tuple)) and not any(
                    isinstance(x, ast.Starred) for x in a.elts):
                parts = []
                for x in a.elts:
                    parts += [('v', x), ('t', sep) if sep is not None
                              else ('v', fn.value)]
                return self.fuse(parts[:-1], seen)
            out = set()
            for x in derived(self.ev(a, seen)):
                if x == COLL:
                    out.add(('fused', sep) if sep is not None else UNK)
                elif is_fused(x):
                    out.add(x)
                else:
                    out.add(UNK)
            return out
        callee = self.prog.resolve_call(self.f, c)
        if callee is not None and callee.cls is not None and \
                callee.name != '__init__':
            return self.returns(callee, c, seen)
        if isinstance(fn, ast.Attribute):
            recv = self.ev(fn.value, seen)
            attr = fn.attr
            if not derived(recv):
                if attr in ('get', 'pop') and c.args and \
                        self.is_key(c.args[0], seen):
                    out = {COLL}                # td.get(sig)
                    for a in c.args[1:]:
                        out |= self.ev(a, seen)
                    return out
                if attr == 'format':
                    parts = []
                    for a in list(c.args) + [k.value for k in c.keywords]:
                        parts += [('v', a), ('v', fn.value)]
                    return self.fuse(parts[:-1], seen)
                if name in M_KEEP:
                    return self.collect(argt)
                return self.passed(argt)
            recv = derived(recv)
            if attr in ('get', 'pop', 'setdefault'):
                out = self.select(recv)
                for a in c.args[1:]:
                    out |= self.ev(a, seen)
                return out
            if attr in ('items', 'values'):
                return {('view', attr) if x == ELEM else x if is_fused(x)
                        else UNK for x in recv}
            if attr == 'keys':
                return set()
            if attr == 'copy':
                return recv
            if attr in M_STR and not derived(argt):
                return {x if x == ELEM or is_fused(x) else UNK for x in recv}
            return {x if is_fused(x) else UNK for x in recv}
        if name in ('str', 'repr', 'format', 'ascii'):
            return {ELEM if x == ELEM else x if is_fused(x) else
                    ('fused', None) if x == COLL else UNK
                    for x in derived(argt)}
        if name in M_KEEP:
            return self.collect(argt)
        return self.passed(argt)

    @staticmethod
    def passed(argt):
        """result of a function the evaluator cannot see into: one command in,
        one command out; anything else is unknown"""
        t = derived(argt)
        if not t or t == {ELEM}:
            return t
        return {x if is_fused(x) else UNK for x in t}

    def param_env(self, callee, c, seen):
        ps = list(callee.params)
        if ps and ps[0] in ('self', 'cls') and not is_static(callee):
            ps = ps[1:]
        env = {}
        for i, a in enumerate(c.args):
            if isinstance(a, ast.Starred) or i >= len(ps):
                continue
            t = self.ev(a, seen)
            if t:
                env[ps[i]] = frozenset(t)
        for k in c.keywords:
            if k.arg in ps:
                t = self.ev(k.value, seen)
                if t:
                    env[k.arg] = frozenset(t)
        return env

    def param_consts(self, callee, c):
        """{parameter of callee: constant text} for the arguments of call c
        (and the defaults of the parameters it leaves out) which are
        constant strings"""
        a = callee.node.args
        ps = [x.arg for x in a.posonlyargs + a.args]
        dflt = dict(zip(ps[len(ps) - len(a.defaults):], a.defaults))
        dflt.update({x.arg: d for x, d in zip(a.kwonlyargs, a.kw_defaults)
                     if d is not None})
        if ps and ps[0] in ('self', 'cls') and not is_static(callee):
            ps = ps[1:]
        given = {}
        for i, x in enumerate(c.args):
            if isinstance(x, ast.Starred):
                return {}
            if i < len(ps):
                given[ps[i]] = x
        for k in c.keywords:
            if k.arg is None:
                return {}
            given[k.arg] = k.value
        out = {}
        for name in set(ps) | set(dflt):
            if name in given:
                t = self.const_text(given[name])
            elif name in dflt and isinstance(dflt[name], ast.Constant) and \
                    isinstance(dflt[name].value, str):
                t = dflt[name].value
            else:
                t = None
            if t is not None:
                out[name] = t
        return out

    def returns(self, callee, c, seen):
        env = self.param_env(callee, c, seen)
        # a function nested in this one (or in one this one is nested in)
        # also sees the locals of that function
        outer, g = None, self
        while g is not None and outer is None:
            if callee.parent is g.f:
                outer = g
            g = g.outer
        if not env and outer is None:
            return set()
        key = (callee.where, tuple(sorted(env.items())))
        if outer is not None:
            key += ('in', tuple(sorted(outer.env.items())))
        if key in self.memo:
            return set(self.memo[key])
        if self.depth > 4:
            return {UNK}
        self.memo[key] = frozenset()
        sub = Mult(self.prog, callee, env, self.depth + 1, self.memo,
                   outer=outer)
        out = set()
        for n in walk(callee.node):
            if isinstance(n, ast.Return) and n.value is not None:
                out |= sub.ev(n.value)
        self.memo[key] = frozenset(out)
        return out


def format_pieces(node, M):
    """pieces of `'..{}..'.format(a, k=b)` with a known format text, or None"""
    if not (isinstance(node, ast.Call) and isinstance(node.func, ast.Attribute)
            and node.func.attr == 'format'):
        return None
    text = M.const_text(node.func.value)
    if text is None or any(isinstance(a, ast.Starred) for a in node.args) or \
            any(k.arg is None for k in node.keywords):
        return None
    import string
    out, auto = [], 0
    try:
        fields = list(string.Formatter().parse(text))
    except ValueError:
        return None
    kw = {k.arg: k.value for k in node.keywords}
    for lit, field, spec, conv in fields:
        if lit:
            out.append(('t', lit))
        if field is None:
            continue
        if field == '':
            field, auto = str(auto), auto + 1
        if field.isdigit() and int(field) < len(node.args):
            out.append(('v', node.args[int(field)]))
        elif field in kw:
            out.append(('v', kw[field]))
        else:
            return None
    return out


def item_pieces(it, f, M):
    """('t', text) / ('v', expr) / ('c', call expr) pieces of one Item"""
    if it.kind == 'const':
        return [('t', it.text)]
    if it.kind == 'call':
        return [('c', it.node)]
    if it.kind != 'fmt':
        return format_pieces(it.node, M) or [('v', it.node)]
    masked = it.text.replace('%%', '\0\0')
    convs = list(FMT_RE.finditer(masked))
    if len(convs) != len(it.vals):
        raise AnalysisError('UNRECOGNISED-IDIOM %s: format `%s` and its %d '
                            'values' % (f.where, it.text[:40], len(it.vals)))
    out, pos = [], 0
    for m, v in zip(convs, it.vals):
        out += [('t', it.text[pos:m.start()].replace('%%', '%')), ('v', v)]
        pos = m.end()
    out.append(('t', it.text[pos:].replace('%%', '%')))
    return [p for p in out if p[0] != 't' or p[1]]


def ends_line(sq, f, M):
    if not sq:
        return True
    x = sq[-1]
    if isinstance(x, Item):
        if x.kind == 'call':
            return True
        last = item_pieces(x, f, M)[-1]
        return last[0] == 't' and last[1].endswith('\n')
    subs = [x[1]] if x[0] == 'loop' else x[1]
    return all(ends_line(s, f, M) for s in subs)


def text_lines(sq, f, M):
    """the lines of the text tree sq: [[piece, ..]]; a loop / alternative
    which starts and ends at a line boundary contributes its own lines, one
    inside a line is the piece ('n', kind, [seq, ..]) of that line"""
    lines, cur = [], []

    def blank(ps):
        return all(p[0] == 't' and not p[1].strip() for p in ps)

    for x in sq:
        if isinstance(x, Item):
            for p in item_pieces(x, f, M):
                if p[0] == 'c' and blank(cur):
                    # (a builder called at a line start returns whole lines)
                    lines.append(cur + [p + (x,)])
                    cur = []
                    continue
                if p[0] != 't':
                    cur.append(p + (x,))
                    continue
                parts = p[1].split('\n')
                for i, part in enumerate(parts):
                    if i:
                        lines.append(cur)
                        cur = []
                    if part and cur and cur[-1][0] == 't':
                        cur[-1] = ('t', cur[-1][1] + part, cur[-1][2])
                    elif part:
                        cur.append(('t', part, x))
            continue
        subs = [x[1]] if x[0] == 'loop' else x[1]
        if blank(cur) and all(ends_line(s, f, M) for s in subs):
            for s in subs:
                lines += text_lines(s, f, M)
        else:
            cur.append(('n', x[0], subs))
            if any(s for s in subs) and all(ends_line(s, f, M) for s in subs):
                lines.append(cur)
                cur = []
    if cur:
        lines.append(cur)
    return [l for l in lines if l]


def sep_ok(sep):
    """commands chained by `&&` hand a failure on to the `||` which follows"""
    return sep is not None and sep.strip() == '&&'


GUARD_HISTORY = (
    "pre_exec=[{'0': ['test -f input.dat', 'export STAGE=1']}] (or the list "
    "of plain commands ['test -f input.dat', 'export STAGE=1']) with "
    'input.dat missing: the script reads `test -f input.dat; export STAGE=1 '
    '|| rp_error pre_exec`, bash applies the guard to the last command only, '
    'the executable runs although a pre_exec command failed; with '
    "post_exec=[{'0': ['false', 'true']}] the script exits with 0")


def sig_env(prog, f):
    """{parameter of f which names the section: {KEY}}: the parameter which
    the script builders bind to 'pre_exec' / 'post_launch' / .."""
    ps = [p for p in f.params if p not in ('self', 'cls')]
    out = {}
    for K in (prog.cls(*EXE), prog.cls(*POPEN)):
        for m in K.methods.values():
            for c in calls_in(m.node):
                if not (isinstance(c.func, ast.Attribute) and
                        c.func.attr == f.name):
                    continue
                if prog.resolve_call(m, c) is not f:
                    continue
                for i, a in enumerate(c.args):
                    if isinstance(a, ast.Constant) and a.value in PREP_KEYS \
                            and i < len(ps):
                        out[ps[i]] = frozenset({KEY})
                for k in c.keywords:
                    if isinstance(k.value, ast.Constant) and \
                            k.value.value in PREP_KEYS and k.arg in ps:
                        out[k.arg] = frozenset({KEY})
    if len(out) != 1:
        raise AnalysisError('UNRECOGNISED-IDIOM %s: cannot tell which '
                            'parameter names the pre/post section (%s)'
                            % (f.where, sorted(out)))
    return out


def guard_lines(prog, rep, rid, f, env, memo, stack=(), consts=None):
    """decide every line of the text of f which holds described commands;
    returns the number of such lines (those of the helpers which build whole
    lines for f are counted per call: extracting a helper does not change the
    number)"""
    if len(stack) > 6:
        raise AnalysisError('R10.6: helper chain below %s does not end'
                            % f.where)
    rep.saw(f)
    T = TextEval(prog, f)
    if not T.returns and not T.sinks:
        raise AnalysisError('UNRECOGNISED-IDIOM %s: returns no text' % f.where)
    M = Mult(prog, f, env, memo=memo, consts=consts)
    n = 0

    def blank(p):
        """white space only: constant text, or a value which is that"""
        if p[0] == 't':
            return not p[1].strip()
        t = M.const_text(p[1]) if p[0] == 'v' else None
        return t is not None and not t.strip()

    for c in T.lossy:
        # (the text tree has the elements of this join without the separator)
        if derived(M.ev(c.args[0])) or derived(M.ev(c)):
            raise AnalysisError('UNRECOGNISED-IDIOM %s: `%s` joins described '
                                'commands with a separator the checker lost '
                                'track of' % (f.where, short(c, 60)))

    def carries(p):
        if p[0] in ('v', 'c'):
            return bool(derived(M.ev(p[1])))
        if p[0] == 'n':
            return any(carries(q) for s in p[2] for l in text_lines(s, f, M)
                       for q in l)
        return False

    def unrec(line, why):
        raise AnalysisError('UNRECOGNISED-IDIOM %s: script line `%s` holds '
                            'described commands %s' % (f.where, show(line),
                                                       why))

    def show(line):
        return ''.join(p[1] if p[0] == 't' else '<loop>' if p[0] == 'n'
                       else '{%s}' % short(p[1], 40) for p in line)[:120]

    for line in text_lines(T.script(), f, M):
        solid = [p for p in line if not blank(p)]
        if len(solid) == 1 and solid[0][0] == 'c':
            # a helper which returns whole lines: its text is decided there
            c = solid[0][1]
            callee = prog.resolve_call(f, c)
            if callee is not None and callee.cls is not None and \
                    callee is not f:
                sub = M.param_env(callee, c, frozenset())
                if sub and callee.where not in stack:
                    n += guard_lines(prog, rep, rid, callee, sub, memo,
                                     stack + (f.where,),
                                     M.param_consts(callee, c))
                continue
        cmds = [i for i, p in enumerate(line) if carries(p)]
        if not cmds:
            continue
        n += 1
        node = line[cmds[0]][-1].node if line[cmds[0]][0] != 'n' else f.node
        g = None
        for i, p in enumerate(line):
            m = GUARD_RE.search(p[1]) if p[0] == 't' else None
            if m:
                g = (i, m.start())
                break
        if g is None:
            if any(p[0] == 't' and 'rp_error' in p[1] for p in line):
                unrec(line, 'and rp_error, but not in the form `<command> || '
                      'rp_error`')
            if len(solid) != 1 or solid[0][0] != 'v' or not (
                    solid[0][2].kind == 'fmt' or
                    isinstance(solid[0][1], (ast.Name, ast.Subscript))):
                # (text the checker does not see may hold the guard)
                unrec(line, 'without a visible failure guard')
            rep.bad(rid, f, 'unguarded:%s' % short(solid[0][1], 60),
                    '%s puts the described command `%s` on a script line of '
                    'its own without `|| rp_error <section>`: its failure '
                    'goes unnoticed' % (f.qual, short(solid[0][1], 60)),
                    f.loc(node),
                    history="pre_exec=['test -f input.dat'] with input.dat "
                    'missing: the executable runs, the script exits with the '
                    'exit code of the executable')
            continue
        if any(i > g[0] for i in cmds):
            unrec(line, 'after the failure guard')
        G = [p for p in line[:g[0]]] + [('t', line[g[0]][1][:g[1]])]
        first, last = cmds[0], cmds[-1]
        wrapped = any(not blank(p) for p in G[:first] + G[last + 1:])
        bad, seps = [], []
        for a, b in zip(cmds, cmds[1:]):
            if any(p[0] != 't' for p in G[a + 1:b]):
                unrec(line, 'mixed with other values')
            seps.append(''.join(p[1] for p in G[a + 1:b]))
        for i in cmds:
            p = G[i]
            if p[0] == 'n':
                if p[1] != 'loop':
                    unrec(line, 'in alternatives inside one line')
                inner = [q for s in p[2] for l in text_lines(s, f, M) for q in l]
                seps.append(''.join(q[1] for q in inner if q[0] == 't'))
                tags = set()
                for q in inner:
                    if q[0] != 't' and q[0] != 'n':
                        tags |= derived(M.ev(q[1]))
                    elif q[0] == 'n':
                        unrec(line, 'in nested loops inside one line')
                what = 'a loop which adds command after command'
            else:
                tags = derived(M.ev(p[1]))
                what = '`%s`' % short(p[1], 60)
            if UNK in tags or any(isinstance(x, tuple) and x[0] == 'view'
                                  for x in tags):
                unrec(line, 'in a way the checker cannot follow (%s)' % what)
            for x in tags:
                if is_fused(x) and x[1] is None:
                    bad.append('%s is the command list rendered as one string'
                               % what)
                elif is_fused(x) and not sep_ok(x[1]):
                    bad.append('%s holds several commands of the list joined '
                               'by %r' % (what, x[1]))
            if COLL in tags:
                bad.append('%s is the command list (or the per-rank value, '
                           'which may be a list) as a whole, not one element '
                           'of it' % what)
        for s in seps:
            if not sep_ok(s):
                bad.append('several commands stand in front of the one guard, '
                           'separated by %r' % s)
        if wrapped and not bad:
            unrec(line, 'wrapped into other text in front of the guard')
        rep.check(not bad, rid, f,
                  'guard line `%s`: the command slot holds one element of the '
                  'described list' % show(line),
                  construct=line[cmds[0]][-1].node if line[cmds[0]][0] != 'n'
                  else 'guard:loop',
                  message='in %s the script line `%s` puts more than one '
                  'described command in front of one `|| rp_error`: %s.  '
                  'bash applies the guard to the last command only, a '
                  'failing earlier command neither stops the script nor '
                  'changes its exit code' % (f.qual, show(line),
                                             '; '.join(sorted(set(bad)))),
                  loc=f.loc(node), history=GUARD_HISTORY)
    return n


def r10_6(prog, rep, rid='R10.6'):
    rep.rule(rid, 'every command of the described pre/post lists stands alone '
             'in front of its `|| rp_error <section>`: the command slot of '
             'each guard line is fed by one element of the list (global and '
             'per-rank branch of _get_prep_exec, _get_prep_launch), never by '
             'the list or by several elements joined other than with `&&`',
             minimum=3)
    memo = {}
    for name in PREP_ROOTS:
        f = prog.method(EXE[0], EXE[1], name)
        rep.stat('R10.6 command lines',
                 guard_lines(prog, rep, rid, f, sig_env(prog, f), memo))



# ------------------------------------------------------------------------------
# R10.12  the per-rank rendering only reads the described entries
#
# The rank loop of _get_prep_exec walks the same list of entries once per
# rank; a plain (global) command is replicated for the rank at hand.  That
# only works if every iteration finds the entries as they were described: an
# in-place change made while rank N is rendered (an entry replaced by its
# per-rank form, an element popped, a key added to a per-rank dict) is what
# rank N+1 sees.  `ru.as_list(td[sig])` is the list of the description
# itself, so such a change also alters the task description.
# Decided as who-may-write: inside the rank loop (and the helpers / nested
# functions called from it) no subscript store, `del`, list `+=` or mutating
# method is applied to
#   * an object of the description: td[sig], what as_list / get / [i] /
#     iteration select out of it (level 2), or
#   * a shallow copy of such an object (level 1) which was made outside the
#     rank loop and so outlives the iteration.
# What a key made of the rank index selects out of a per-rank dict (and the
# slot under such a key) belongs to the rank at hand: no other rank reads it.
#
MUTATORS = {'append', 'extend', 'insert', 'pop', 'popitem', 'remove', 'clear',
            'sort', 'reverse', 'update', 'add', 'discard', '__setitem__',
            '__delitem__', 'appendleft', 'popleft'}
SHALLOW = {'list', 'tuple', 'sorted', 'reversed', 'enumerate', 'zip', 'iter',
           'set', 'frozenset', 'dict', 'filter', 'copy', 'copy.copy',
           'OrderedDict', 'collections.OrderedDict'}
ENTRIES_HISTORY = (
    "ranks=3, pre_exec=['export A=1', {'1': 'module load x'}] (what "
    '_extend_pre_exec makes of every CUDA task): while rank 0 is rendered '
    "the entry 'export A=1' is replaced by {'0': 'export A=1'} in the list; "
    'the branches of ranks 1 and 2 find a dict without their key and never '
    'run `export A=1`')


class Alias:
    """how much of the value of an expression is the description's own data:
    2 the object itself is part of td[sig], 1 a new container whose elements
    are, 0 neither"""

    def __init__(self, prog, M, env=None, outer=None, depth=0, rank=()):
        self.prog, self.M, self.f = prog, M, M.f
        self.env = env or {}
        self.outer, self.depth = outer, depth
        # names which hold the rank index or a key made of it
        self.rank = set(rank)
        grown = True
        while grown:
            grown = False
            for nm, ds in M.defs.items():
                if nm not in self.rank and any(
                        d[0] == 'assign' and self.key_like(d[1]) and
                        self.of_rank(d[1]) for d in ds):
                    self.rank.add(nm)
                    grown = True

    @staticmethod
    def key_like(e):
        """an index or a key text made of one: not a container"""
        if isinstance(e, ast.Call):
            return dotted(e.func) in ('str', 'int', 'repr', 'format') or (
                isinstance(e.func, ast.Attribute) and
                e.func.attr in ('format', 'strip', 'zfill'))
        return isinstance(e, (ast.Name, ast.BinOp, ast.JoinedStr))

    def of_rank(self, e):
        """e is made of the rank index: what it selects out of a per-rank
        dict is the part of the rank at hand, no other rank reads it"""
        g = self
        while g is not None:
            if any(n in g.rank and (g is self or (
                    n not in self.M.defs and n not in self.M.params))
                    for n in names_in(e)):
                return True
            g = g.outer
        return False

    def is_root(self, base, key):
        return not derived(self.M.ev(base)) and \
            self.M.is_key(key, frozenset())

    def name(self, nm, seen):
        if nm in seen:
            return 0
        ds = [d for d in self.M.defs.get(nm, [])
              if d[0] in ('assign', 'iter', 'unpack')]
        if not self.M.defs.get(nm):
            if nm in self.M.params:
                return self.env.get(nm, 0)
            if self.outer is not None:
                return self.outer.name(nm, frozenset())
            return 0
        out, s2 = 0, seen | {nm}
        for kind, v, node, pos in ds:
            lv = self.level(v, s2)
            out = max(out, lv if kind == 'assign' else 2 if lv else 0)
        return out

    def level(self, e, seen=frozenset()):
        if e is None or isinstance(e, ast.Constant):
            return 0
        if isinstance(e, ast.Name):
            return self.name(e.id, seen)
        if isinstance(e, ast.Subscript):
            lv = self.level(e.value, seen)
            if isinstance(e.slice, ast.Slice):
                return 1 if lv else 0
            if lv and self.of_rank(e.slice):
                return 0
            return 2 if lv or self.is_root(e.value, e.slice) else 0
        if isinstance(e, (ast.IfExp, ast.BoolOp)):
            vs = [e.body, e.orelse] if isinstance(e, ast.IfExp) else e.values
            return max(self.level(v, seen) for v in vs)
        if isinstance(e, ast.NamedExpr):
            return self.level(e.value, seen)
        if isinstance(e, ast.Starred):
            return self.level(e.value, seen)
        if isinstance(e, (ast.List, ast.Tuple, ast.Set)):
            return 1 if any(self.level(x, seen) for x in e.elts) else 0
        if isinstance(e, ast.Dict):
            return 1 if any(self.level(x, seen) for x in e.values) else 0
        if isinstance(e, (ast.ListComp, ast.SetComp, ast.GeneratorExp)):
            return 1 if self.level(e.elt, seen) == 2 else 0
        if isinstance(e, ast.DictComp):
            return 1 if self.level(e.value, seen) == 2 else 0
        if isinstance(e, ast.Call):
            return self.call(e, seen)
        return 0

    def call(self, c, seen):
        fn = c.func
        name = dotted(fn) or ''
        last = name.split('.')[-1]
        if last == 'as_list' and c.args:
            # (returns its argument if that is a list, wraps it otherwise)
            return self.level(c.args[0], seen)
        if last == 'deepcopy':
            return 0
        if name in SHALLOW:
            return 1 if any(self.level(a, seen) for a in c.args) else 0
        if name == 'next' and c.args:
            return 2 if self.level(c.args[0], seen) else 0
        callee = self.prog.resolve_call(self.f, c)
        if callee is not None and callee.cls is not None and \
                callee.name != '__init__':
            sub = self.sub(callee, c)
            if sub is None:
                return 0
            return max([sub.level(n.value) for n in walk(callee.node)
                        if isinstance(n, ast.Return) and n.value is not None]
                       or [0])
        if isinstance(fn, ast.Attribute):
            lv = self.level(fn.value, seen)
            if fn.attr in ('get', 'pop', 'setdefault') and c.args:
                out = 2 if lv or self.is_root(fn.value, c.args[0]) else 0
                if lv and self.of_rank(c.args[0]):
                    out = 0
                return max([out] + [self.level(a, seen) for a in c.args[1:]])
            if fn.attr in ('copy', 'values', 'items'):
                return 1 if lv else 0
        return 0

    def sub(self, callee, c):
        """the evaluator of callee as called by c"""
        if self.depth > 3:
            return None
        ps = list(callee.params)
        if ps and ps[0] in ('self', 'cls') and not is_static(callee):
            ps = ps[1:]
        env, rank = {}, set()
        for i, a in enumerate(c.args):
            if not isinstance(a, ast.Starred) and i < len(ps):
                env[ps[i]] = self.level(a)
                if self.of_rank(a):
                    rank.add(ps[i])
        for k in c.keywords:
            if k.arg in ps:
                env[k.arg] = self.level(k.value)
                if self.of_rank(k.value):
                    rank.add(k.arg)
        outer, g = None, self
        while g is not None and outer is None:
            if callee.parent is g.f:
                outer = g
            g = g.outer
        M = Mult(self.prog, callee, self.M.param_env(callee, c, frozenset()),
                 self.M.depth + 1, self.M.memo,
                 outer=outer.M if outer is not None else None)
        return Alias(self.prog, M, env, outer, self.depth + 1, rank)


def flat_targets(t):
    if isinstance(t, (ast.Tuple, ast.List)):
        out = []
        for x in t.elts:
            out += flat_targets(x)
        return out
    if isinstance(t, ast.Starred):
        return flat_targets(t.value)
    return [t]


def inplace_ops(body):
    """[(node, receiver expr, what, key expr or None)] of the in-place
    changes in body"""
    out = []
    for n in walk(body):
        ts = []
        if isinstance(n, ast.Assign):
            for t in n.targets:
                ts += flat_targets(t)
        elif isinstance(n, ast.AnnAssign) and n.value is not None:
            ts = [n.target]
        elif isinstance(n, ast.AugAssign):
            ts = [n.target]
            if isinstance(n.target, ast.Name) and isinstance(
                    n.op, ast.Add) and isinstance(
                    n.value, (ast.List, ast.ListComp, ast.Tuple)):
                out.append((n, n.target, 'list `+=`', None))
        elif isinstance(n, ast.Delete):
            ts = list(n.targets)
            for t in ts:
                if isinstance(t, ast.Subscript):
                    out.append((n, t.value, '`del`', t.slice))
            ts = []
        elif isinstance(n, ast.Call) and isinstance(n.func, ast.Attribute) \
                and n.func.attr in MUTATORS:
            out.append((n, n.func.value, '.%s()' % n.func.attr, None))
        for t in ts:
            if isinstance(t, ast.Subscript):
                out.append((n, t.value, 'store into an element', t.slice))
    return out


def _fresh_at(f, body, node, name):
    """every definition of `name` reaching `node` is a new container (copying
    constructor, display, comprehension, `.copy()`) made inside `body`"""
    from ..cfg import cfg_of
    from ..flow import reaching_defs
    from .. import idioms as _I
    try:
        g = cfg_of(f)
        sm = _I.stmt_node_map(g)
    except Exception:                                            # noqa
        return False
    if id(node) not in sm:
        return False
    inside = {id(x) for x in walk(body)}
    rds = reaching_defs(g, name, sm[id(node)].id)
    if not rds:
        return False
    for dn, v in rds:
        if v is None or id(dn.ast) not in inside:
            return False
        fresh = isinstance(v, (ast.Dict, ast.List, ast.Set, ast.ListComp,
                               ast.DictComp, ast.SetComp))
        if isinstance(v, ast.Call):
            nm = dotted(v.func) or ''
            fresh = nm in ('dict', 'list', 'set', 'sorted', 'copy.copy',
                           'copy.deepcopy', 'deepcopy', 'OrderedDict',
                           'collections.OrderedDict') or (
                isinstance(v.func, ast.Attribute) and v.func.attr == 'copy'
                and not v.args)
        if not fresh:
            return False
    return True


def r10_12(prog, rep, rid='R10.12'):
    rep.rule(rid, 'the per-rank rendering of _get_prep_exec (rank loop, the '
             'helpers and nested functions called from it) only reads the '
             'described entries: no in-place change of td[sig], of what '
             'as_list / get / iteration select out of it, or of a copy made '
             'outside the rank loop', minimum=1)
    f = prog.method(EXE[0], EXE[1], '_get_prep_exec')
    rep.saw(f)
    lp, rv, _ = rank_loop(f, [it.node for it in case_labels(prog, f)])
    memo = {}
    A0 = Alias(prog, Mult(prog, f, sig_env(prog, f), memo=memo), rank=[rv])
    work, seen, n_ops = [(A0, lp)], {f.where}, 0
    while work:
        A, body = work.pop()
        g = A.f
        inside = {id(x) for x in walk(body)}
        for node, recv, what, key in inplace_ops(body):
            n_ops += 1
            lv = A.level(recv)
            if key is not None and A.of_rank(key):
                lv = 0          # (the slot of the rank at hand)
            if lv == 1:
                # a copy: lives as long as the scope it was made in
                ds = A.M.defs.get(recv.id, []) if isinstance(recv, ast.Name) \
                    else None
                if ds is None or any(id(d[2]) in inside for d in ds
                                     if d[0] in ('assign', 'iter', 'unpack')):
                    lv = 0
            if lv and isinstance(recv, ast.Name):
                # flow-sensitive refinement: every definition of the name that
                # reaches this operation is a fresh container built inside the
                # loop (`entry = dict(entry)`; `cmds = list(cmds)`): the change
                # stays with this rank
                if _fresh_at(g, body, node, recv.id):
                    lv = 0
            rep.check(lv == 0, rid, g, '`%s` does not change the described '
                      'entries' % short(node, 50), construct=node,
                      message='%s changes the described entries while the '
                      'ranks are rendered: `%s` (%s) is applied to `%s`, '
                      'which is %s.  The branches of the following ranks are '
                      'rendered from the changed entries (and the task '
                      'description is altered)'
                      % (g.qual, short(node, 70), what, short(recv, 40),
                         'part of the description (td[...] reached through '
                         'as_list / get / index / iteration without a copy)'
                         if lv == 2 else 'a copy of the entries made once, '
                         'outside the rank loop'),
                      loc=g.loc(node), history=ENTRIES_HISTORY)
        for c in calls_in(body):
            callee = prog.resolve_call(g, c)
            if callee is None or callee.cls is None or \
                    callee.name == '__init__' or callee.where in seen:
                continue
            sub = A.sub(callee, c)
            if sub is None:
                continue
            seen.add(callee.where)
            rep.saw(callee)
            if len(seen) < 8:
                work.append((sub, callee.node))
    rep.ok(rid, f, 'rank loop over `%s` and %d function(s) called from it: %d '
           'in-place operation(s), none on the described entries'
           % (short(lp.iter, 30), len(seen) - 1, n_ops))
    rep.stat('R10.12 in-place operations', n_ops)


# ------------------------------------------------------------------------------
# R10.9  the per-rank switch is taken whenever one entry is a per-rank dict
#
# The entries of td['pre_exec'] / td['post_exec'] are plain commands (str) or
# per-rank dicts.  _get_prep_exec has two renderings: every entry as one
# guarded command line, or the `case "$RP_RANK"` switch.  The first one prints
# a dict entry into the script as if it were a command, so the switch must be
# generated as soon as ANY entry is a dict.  Decided as guard strength over a
# finite domain: the tests which the `case` header is control dependent on are
# evaluated for every list of up to two entries over {str, dict}; for each
# list with a dict all of them must pass.  Tests which do not look at the
# entries (`sig not in td`) are no business of this rule.
#
class _Unk:
    def __repr__(self):
        return '?'


UNKV = _Unk()
SAMPLES = [(), ('S',), ('D',), ('S', 'D'), ('D', 'S'), ('S', 'S'), ('D', 'D')]
TYPE_OF = {'dict': 'D', 'str': 'S', 'Mapping': 'D', 'MutableMapping': 'D',
           'OrderedDict': 'D', 'list': 'O', 'tuple': 'O', 'set': 'O',
           'int': 'O', 'float': 'O', 'bool': 'O', 'bytes': 'O',
           'frozenset': 'O'}        # O: a type no entry has


class GuardEval:
    """value of a test of f for one sample of the entries list"""

    def __init__(self, prog, f, M, sample):
        self.prog, self.f, self.M = prog, f, M
        self.sample = list(sample)
        self.defs = M.defs

    def is_domain(self, e, seen=()):
        """e is the list of entries td[sig] (all of it, in order)"""
        M = self.M
        if isinstance(e, ast.Subscript) and not isinstance(e.slice, ast.Slice):
            return not derived(M.ev(e.value)) and M.is_key(e.slice,
                                                           frozenset())
        if isinstance(e, ast.Call):
            name = dotted(e.func)
            if isinstance(e.func, ast.Attribute) and e.func.attr == 'get' \
                    and e.args and not derived(M.ev(e.func.value)) and \
                    M.is_key(e.args[0], frozenset()):
                return True
            if name in ('ru.as_list', 'as_list', 'list', 'tuple') and \
                    len(e.args) == 1 and not e.keywords:
                return self.is_domain(e.args[0], seen)
            return False
        if isinstance(e, ast.BoolOp) and isinstance(e.op, ast.Or):
            return self.is_domain(e.values[0], seen) and all(
                isinstance(v, (ast.List, ast.Tuple)) and not v.elts
                for v in e.values[1:])
        if isinstance(e, ast.Name) and e.id not in seen:
            ds = self.defs.get(e.id, [])
            return len(ds) == 1 and ds[0][0] == 'assign' and \
                e.id not in self.M.params and \
                self.is_domain(ds[0][1], seen + (e.id,))
        return False

    def depends(self, e, seen=()):
        """e looks at the entries (directly or through local definitions)"""
        for x in walk(e):
            if isinstance(x, (ast.Name, ast.Subscript, ast.Call)) and \
                    self.is_domain(x):
                return True
            if isinstance(x, (ast.Name, ast.Subscript)) and \
                    derived(self.M.ev(x)):
                return True
            if isinstance(x, ast.Name) and x.id not in seen:
                for kind, v, node, pos in self.defs.get(x.id, []):
                    if kind == 'assign' and self.depends(v, seen + (x.id,)):
                        return True
                    # (a flag which a loop over the entries sets)
                    if kind == 'assign' and any(
                            self.is_domain(lp.iter)
                            for lp in self.M.encl.get(id(node), ())
                            if isinstance(lp, ast.For)):
                        return True
        return False

    @staticmethod
    def truth(v):
        if v is UNKV or v in ('S', 'D'):
            return UNKV
        if isinstance(v, tuple) and v and v[0] == 'type':
            return True
        return bool(v)

    def types(self, e):
        """{'S','D'} named by the second argument of isinstance, or None"""
        if isinstance(e, ast.Tuple):
            out = set()
            for x in e.elts:
                t = self.types(x)
                if t is None:
                    return None
                out |= t
            return out
        name = dotted(e)
        if name:
            last = name.split('.')[-1]
            if last in TYPE_OF:
                return {TYPE_OF[last]}
        return None

    def val(self, e, bind, seen=()):
        if isinstance(e, ast.Constant):
            return e.value if isinstance(e.value, (bool, int, str)) or \
                e.value is None else UNKV
        if isinstance(e, ast.Name):
            if e.id in bind:
                return bind[e.id]
            if self.is_domain(e):
                return list(self.sample)
            if e.id in seen or e.id in self.M.params:
                return UNKV
            ds = self.defs.get(e.id, [])
            if len(ds) == 1 and ds[0][0] == 'assign':
                return self.val(ds[0][1], bind, seen + (e.id,))
            if len(ds) == 2:
                return self.flag(ds, bind, seen + (e.id,))
            return UNKV
        if self.is_domain(e):
            return list(self.sample)
        if isinstance(e, ast.Subscript):
            i = self.prog.fold(self.f.module, e.slice, self.f.cls)
            xs = self.val(e.value, bind, seen)
            if isinstance(i, int) and not isinstance(i, bool) and \
                    isinstance(xs, list) and -len(xs) <= i < len(xs):
                return xs[i]
            return UNKV
        if isinstance(e, ast.UnaryOp) and isinstance(e.op, ast.Not):
            t = self.truth(self.val(e.operand, bind, seen))
            return UNKV if t is UNKV else not t
        if isinstance(e, ast.BoolOp):
            vals = [self.truth(self.val(v, bind, seen)) for v in e.values]
            if isinstance(e.op, ast.And):
                if any(v is False for v in vals):
                    return False
                return UNKV if any(v is UNKV for v in vals) else True
            if any(v is True for v in vals):
                return True
            return UNKV if any(v is UNKV for v in vals) else False
        if isinstance(e, (ast.ListComp, ast.GeneratorExp, ast.SetComp)):
            if len(e.generators) != 1:
                return UNKV
            g = e.generators[0]
            it = self.val(g.iter, bind, seen)
            if not isinstance(it, list) or not isinstance(g.target, ast.Name):
                return UNKV
            out = []
            for x in it:
                b = dict(bind, **{g.target.id: x})
                keep = [self.truth(self.val(t, b, seen)) for t in g.ifs]
                if any(k is UNKV for k in keep):
                    return UNKV
                if all(keep):
                    out.append(self.val(e.elt, b, seen))
            return out
        if isinstance(e, (ast.List, ast.Tuple)):
            return [self.val(x, bind, seen) for x in e.elts]
        if isinstance(e, ast.Compare) and len(e.ops) == 1:
            a = self.val(e.left, bind, seen)
            b = self.val(e.comparators[0], bind, seen)
            op = e.ops[0]
            if isinstance(a, tuple) and a and a[0] == 'type':
                t = self.types(e.comparators[0])
                if t is None or not isinstance(op, (ast.Eq, ast.NotEq, ast.Is,
                                                    ast.IsNot, ast.In,
                                                    ast.NotIn)):
                    return UNKV
                r = a[1] in t
                return r if isinstance(op, (ast.Eq, ast.Is, ast.In)) else not r
            if isinstance(op, (ast.In, ast.NotIn)) and isinstance(b, list) \
                    and isinstance(a, (bool, int)) and \
                    all(isinstance(x, (bool, int)) for x in b):
                return (a in b) == isinstance(op, ast.In)
            if a is UNKV or b is UNKV or a in ('S', 'D') or b in ('S', 'D') \
                    or isinstance(a, list) or isinstance(b, list):
                return UNKV
            try:
                if isinstance(op, ast.Eq):
                    return a == b
                if isinstance(op, ast.NotEq):
                    return a != b
                if isinstance(op, ast.Lt):
                    return a < b
                if isinstance(op, ast.LtE):
                    return a <= b
                if isinstance(op, ast.Gt):
                    return a > b
                if isinstance(op, ast.GtE):
                    return a >= b
            except TypeError:
                return UNKV
            return UNKV
        if isinstance(e, ast.Call) and not e.keywords:
            name = dotted(e.func)
            args = e.args
            if name in ('any', 'all') and len(args) == 1:
                xs = self.val(args[0], bind, seen)
                if not isinstance(xs, list):
                    return UNKV
                ts = [self.truth(x) for x in xs]
                if name == 'any':
                    if any(t is True for t in ts):
                        return True
                    return UNKV if any(t is UNKV for t in ts) else False
                if any(t is False for t in ts):
                    return False
                return UNKV if any(t is UNKV for t in ts) else True
            if name == 'isinstance' and len(args) == 2:
                x = self.val(args[0], bind, seen)
                t = self.types(args[1])
                if x not in ('S', 'D') or t is None:
                    return UNKV
                return x in t
            if name == 'type' and len(args) == 1:
                x = self.val(args[0], bind, seen)
                return ('type', x) if x in ('S', 'D') else UNKV
            if name == 'len' and len(args) == 1:
                x = self.val(args[0], bind, seen)
                return len(x) if isinstance(x, list) else UNKV
            if name == 'bool' and len(args) == 1:
                return self.truth(self.val(args[0], bind, seen))
            if name in ('sum',) and len(args) == 1:
                xs = self.val(args[0], bind, seen)
                if isinstance(xs, list) and all(isinstance(x, (bool, int))
                                                for x in xs):
                    return sum(xs)
                return UNKV
            if name in ('list', 'tuple', 'ru.as_list', 'as_list', 'sorted') \
                    and len(args) == 1:
                x = self.val(args[0], bind, seen)
                return x if isinstance(x, list) else UNKV
        if isinstance(e, ast.IfExp):
            t = self.truth(self.val(e.test, bind, seen))
            if t is UNKV:
                return UNKV
            return self.val(e.body if t else e.orelse, bind, seen)
        return UNKV

    def flag(self, ds, bind, seen):
        """`flag = False` ... `for x in entries: if test(x): flag = True`:
        the flag says whether some entry passes the test (or the mirror
        image with True / False exchanged)"""
        consts = [(d, d[1].value) for d in ds if d[0] == 'assign' and
                  isinstance(d[1], ast.Constant) and
                  isinstance(d[1].value, bool)]
        if len(consts) != 2 or consts[0][1] == consts[1][1]:
            return UNKV
        loops = [n for n in walk(self.f.node) if isinstance(n, ast.For)
                 and isinstance(n.target, ast.Name)]
        inside = [(d, v, lp) for d, v in consts for lp in loops
                  if any(x is d[2] for x in walk(lp))]
        if len(inside) != 1:
            return UNKV
        (d, v, lp) = inside[0]
        it = self.val(lp.iter, bind, seen)
        if not isinstance(it, list):
            return UNKV
        # the tests between the loop head and the assignment

        def path(stmts, acc):
            for st in stmts:
                if st is d[2]:
                    return acc
                if isinstance(st, ast.If):
                    r = path(st.body, acc + [(st.test, True)])
                    if r is None:
                        r = path(st.orelse, acc + [(st.test, False)])
                    if r is not None:
                        return r
                elif any(x is d[2] for x in walk(st)):
                    return None if not isinstance(st, ast.Expr) else None
            return None
        tests = path(lp.body, [])
        if tests is None:
            return UNKV
        some = False
        for x in it:
            b = dict(bind, **{lp.target.id: x})
            ts = [self.truth(self.val(t, b, seen)) for t, pol in tests]
            if any(t is UNKV for t in ts):
                return UNKV
            if all(t == pol for t, (_, pol) in zip(ts, tests)):
                some = True
        return v if some else (not v)

    def holds(self, atom, pol, loops, outside):
        """the edge `pol` of the test `atom` is taken (for a test on the
        element of a loop over the entries which the guarded statement is not
        part of: by some iteration).  True / False / UNKV"""
        free = free_loops(atom, outside)
        if not free:
            t = self.truth(self.val(atom, {}))
            return UNKV if t is UNKV else (t == pol)
        if len(free) > 1:
            return UNKV
        it = self.val(free[0].iter, {})
        if not isinstance(it, list):
            return UNKV
        res = []
        for x in it:
            t = self.truth(self.val(atom, {free[0].target.id: x}))
            res.append(UNKV if t is UNKV else (t == pol))
        if any(r is True for r in res):
            return True
        return UNKV if any(r is UNKV for r in res) else False


def free_loops(atom, outside):
    """the loops (not around the guarded statement) whose element the test
    atom, which is part of their body, looks at"""
    names = set(names_in(atom))
    return [lp for lp in outside
            if isinstance(lp.target, ast.Name) and lp.target.id in names and
            any(x is atom for x in walk(lp))]


def show_sample(sample, sig='pre_exec'):
    return '%s=[%s]' % (sig, ', '.join("{'0': 'cmd'}" if x == 'D'
                                       else "'cmd'" for x in sample))


def r10_9(prog, rep, rid='R10.9'):
    rep.rule(rid, 'the per-rank `case "$RP_RANK"` switch of _get_prep_exec is '
             'generated whenever at least one entry of the pre/post list is a '
             'per-rank dict (the tests the case header depends on, evaluated '
             'over all lists of up to two str / dict entries)', minimum=4)
    f = prog.method(EXE[0], EXE[1], '_get_prep_exec')
    rep.saw(f)
    T, its = script_items(prog, f)
    heads = [it for it, pa in its if it.text and
             re.match(r'\s*case\s', it.text)]
    if not heads:
        raise AnalysisError('UNRECOGNISED-IDIOM %s: no `case` header piece in '
                            'the text' % f.where)
    M = Mult(prog, f, sig_env(prog, f), memo={})
    g = cfg_of(f)
    smap = I.stmt_node_map(g)
    loops = [n for n in walk(f.node) if isinstance(n, ast.For)]
    for it in heads:
        node = smap.get(id(it.node))
        if node is None:
            raise AnalysisError('UNRECOGNISED-IDIOM %s: statement of the '
                                '`case` header' % f.where)
        outside = [lp for lp in loops
                   if not any(x is it.node for x in walk(lp))]
        tests = []
        for tid, lab in guards(g, node.id):
            atom = g.nodes[tid].ast
            ge = GuardEval(prog, f, M, ())
            free = [lp for lp in free_loops(atom, outside)
                    if ge.is_domain(lp.iter)]
            if ge.depends(atom) or free:
                tests.append((atom, lab == 'T'))
        if not tests:
            raise AnalysisError('UNRECOGNISED-IDIOM %s: the `case` header does '
                                'not depend on a test on the entries'
                                % f.where)
        for sample in SAMPLES:
            if 'D' not in sample:
                continue
            ge = GuardEval(prog, f, M, sample)
            res = [(atom, pol, ge.holds(atom, pol, loops, outside))
                   for atom, pol in tests]
            unk = [a for a, p, r in res if r is UNKV]
            bad = [(a, p) for a, p, r in res if r is False]
            if unk and not bad:
                raise AnalysisError(
                    'UNRECOGNISED-IDIOM %s: cannot evaluate the test `%s` for '
                    '%s' % (f.where, short(unk[0], 50), show_sample(sample)))
            rep.check(not bad, rid, f,
                      'entries %s: the per-rank switch is generated'
                      % show_sample(sample, 'sig'),
                      construct='switch:%s' % ''.join(sample),
                      message='%s generates the per-rank `case` switch only '
                      'if `%s` is %s; for %s that is not so although one '
                      'entry is a per-rank dict: the other rendering prints '
                      'every entry as a command line, so the dict itself '
                      "lands in the script (`{'0': 'cmd'} || rp_error "
                      'pre_exec`), bash fails on it and the executable never '
                      'runs' % (f.qual,
                                short(bad[0][0], 50) if bad else '',
                                bad[0][1] if bad else '',
                                show_sample(sample)),
                      loc=f.loc(it.node),
                      history='%s (every CUDA task with one plain pre_exec '
                      'command is such a mix: _extend_pre_exec appends the '
                      'per-rank CUDA_VISIBLE_DEVICES dict): the exec script '
                      'fails in its pre_exec section' % show_sample(sample))


# ------------------------------------------------------------------------------
# R10.10  the rank variable: producer / consumer agreement
#
# The exec script learns its rank from ONE shell variable.  Three pieces of
# generated text (and one Python test) have to name the same variable:
#
#   * the per-rank switch of _get_prep_exec reads it: `case "$V" in`;
#   * every launcher's `get_rank_cmd` has to export it: `export V=...`
#     (_get_rank_ids puts that text into the script right after RP_RANKS);
#   * _get_rank_ids insists on `'export V=' in <text>` for multi-rank tasks.
#
# A launcher whose rank command exports another name (a misspelled constant)
# leaves $V unset: no branch of the switch matches, per-rank pre/post entries
# do not run, and the executable does not see its rank.  Nothing is matched by
# position: the names are read from the text each function produces (TextEval:
# whichever way the text is put together, helpers followed).
#
CASE_VAR_RE = re.compile(r'\bcase\s+"?\$\{?([A-Za-z_]\w*)\}?"?\s+in\b')
EXPORT_ANY_RE = re.compile(r'(?:^|[\s;&|(])export\s+([A-Za-z_]\w*)=')
EXPORT_LIT_RE = re.compile(r'^\s*export\s+([A-Za-z_]\w*)=?\s*$')


def produced_texts(prog, f, K=None, depth=0, seen=None):
    """([text pieces], complete): the constant / format pieces of the text f
    returns (or writes), builders it calls followed; `complete` is False if
    some piece is an expression whose text is not known"""
    seen = seen if seen is not None else set()
    if f.where in seen or depth > 4:
        return [], False
    seen.add(f.where)
    T = TextEval(prog, f, K)
    texts, complete = [], True
    for it, pa in T.items():
        if it.text is not None:
            texts.append(it.text)
        elif it.kind == 'call' or isinstance(it.node, ast.Call):
            # (also `super().get_rank_cmd()`, a module level builder)
            g = prog.resolve_call(f, it.node, K) \
                if isinstance(it.node, ast.Call) else None
            if g is None or g.where in seen:
                complete = False
                continue
            sub, okc = produced_texts(prog, g, K, depth + 1, seen)
            texts += sub
            complete = complete and okc
        else:
            complete = False
    if not T.returns and not T.sinks:
        complete = False
    return texts, complete


def rank_variable(prog):
    """(function, name, node) of the shell variable the per-rank switch of
    _get_prep_exec switches on"""
    f = prog.method(EXE[0], EXE[1], '_get_prep_exec')
    found = []
    todo, seen = [f], set()
    while todo:
        g = todo.pop()
        if g.where in seen:
            continue
        seen.add(g.where)
        T = TextEval(prog, g)
        for it, pa in T.items():
            if it.text is not None:
                for m in CASE_VAR_RE.finditer(it.text):
                    found.append((m.group(1), it.node, g))
            elif it.kind == 'call' and len(seen) < 6:
                h = prog.resolve_call(g, it.node)
                if h is not None:
                    todo.append(h)
    names = {n for n, _, _ in found}
    if len(names) != 1:
        raise AnalysisError('UNRECOGNISED-IDIOM %s: the per-rank switch reads '
                            '%s (one `case "$V" in` header expected)'
                            % (f.where, sorted(names) or 'no variable'))
    return f, found[0][0], found[0][1]


def r10_10(prog, rep, classes, rid='R10.10', minimum=13):
    rep.rule(rid, 'the shell variable which the per-rank `case` switch of '
             '_get_prep_exec reads is the one every launcher\'s get_rank_cmd '
             'exports (and the one _get_rank_ids insists on)', minimum=minimum)
    fc, var, cnode = rank_variable(prog)
    rep.saw(fc)
    n = 0
    for K in classes:
        f = prog.find_method(K, 'get_rank_cmd')
        if f is None:
            continue
        if f.cls is prog.cls(*LM) and not any(
                isinstance(x, ast.Return) and x.value is not None
                for x in walk(f.node)):
            continue                    # the base class stub (raises)
        rep.saw(f)
        n += 1
        texts, complete = produced_texts(prog, f, K)
        names = set()
        for t in texts:
            names |= set(EXPORT_ANY_RE.findall(t))
        if var not in names and not complete:
            raise AnalysisError('UNRECOGNISED-IDIOM %s: the text of the rank '
                                'command of %s is not known' % (f.where,
                                                                K.name))
        rep.check(var in names, rid, f,
                  '%s.get_rank_cmd exports %s' % (K.name, var),
                  construct='%s:rank variable' % K.name,
                  message='the rank command of launcher %s (%s) exports %s but '
                  'not %s, the variable the per-rank `case "$%s" in` switch of '
                  '%s reads: in the exec script $%s stays unset, no branch of '
                  'the switch matches, per-rank pre/post commands (and, once '
                  'one entry is per-rank, all of them) are skipped and the '
                  'executable does not see its rank'
                  % (K.name, f.qual, ', '.join(sorted(names)) or 'nothing',
                     var, var, fc.qual, var),
                  loc=f.loc(),
                  history="a task launched with %s, pre_exec=[{'0': 'export "
                  "X=1'}] (or any CUDA task: the executor adds a per-rank "
                  'CUDA_VISIBLE_DEVICES entry): the command does not run, $%s '
                  'is empty in the executable' % (K.name, var))
    if not n:
        raise AnalysisError('R10.10: no launcher class with a rank command')
    # the Python side: `'export V=' [not] in <text>` of _get_rank_ids
    fr = prog.method(EXE[0], EXE[1], '_get_rank_ids')
    rep.saw(fr)
    consts = {}
    for name, vals in local_defs(fr.node).items():
        if len(vals) == 1 and isinstance(vals[0], ast.Constant) and \
                isinstance(vals[0].value, str) and name not in fr.params:
            consts[name] = vals[0].value
    for x in walk(fr.node, nested=True):
        if not (isinstance(x, ast.Compare) and len(x.ops) == 1 and
                isinstance(x.ops[0], (ast.In, ast.NotIn))):
            continue
        lit = x.left.value if isinstance(x.left, ast.Constant) else \
            consts.get(x.left.id) if isinstance(x.left, ast.Name) else None
        m = EXPORT_LIT_RE.match(lit) if isinstance(lit, str) else None
        if not m:
            continue
        rep.check(m.group(1) == var, rid, fr,
                  'the export which _get_rank_ids insists on is that of %s'
                  % var, construct='rank ids:required export',
                  message='%s tests the rank command for `%s` but the per-rank '
                  'switch reads $%s and the launchers export %s: every '
                  'multi-rank task is refused (or a launcher which does not '
                  'set $%s passes)' % (fr.qual, lit.strip(), var, var, var),
                  loc=fr.loc(x),
                  history='task with ranks=2: RuntimeError `launch method .. '
                  'does not export ..` although the launcher does')


# ------------------------------------------------------------------------------
# R10.7  exit codes: the error path and the end of the scripts
#
# "the script's exit code is the executable's exit code unless a pre/post
# command failed" rests on two cooperating pieces of generated shell text:
#
#   * every guard line reads `<cmd> || rp_error <section>`; the shell function
#     `rp_error` (defined in both scripts) must END THE SCRIPT WITH A STATUS
#     WHICH CANNOT BE 0: `exit <literal n, n % 256 != 0>`.  `exit $RP_RET` /
#     `exit ${RP_RET:-1}` is 0 once the executable has succeeded, a bare `exit`
#     or `exit $?` after the `echo` is the status of the echo, `return` hands
#     control back to the line after the failed command;
#   * the last statement of each script is `exit $V` with V the variable which
#     captured `$?` right after the executable / the launch command.
#
# The shell text is modelled, not matched: the text of each script is the
# TextEval tree of its writer with the builders it calls expanded (known text,
# holes for values, markers where a loop or an alternative begins and ends).
# Function bodies are split into simple statements by a small shell scanner
# (quotes, ${..}, $(..), comments, `;` and newline); control flow inside
# `rp_error` stops the analysis (UNRECOGNISED-IDIOM).
#
HOLE, OPAQ, OPEN, CLOSE = '\0', '\3', '\1', '\2'
SH_RESERVED = {'if', 'then', 'else', 'elif', 'fi', 'case', 'esac', 'for',
               'while', 'until', 'do', 'done', '{', '}', '(', ')', '!', '[[',
               'function', 'select', 'time', 'coproc'}
SH_BENIGN = {'echo', 'printf', ':', 'true', 'date', 'sleep', 'touch', 'sync',
             'logger', 'cat', 'ls', 'pwd', 'test', '[', 'export', 'local',
             'unset', 'readonly', 'set'}
SH_ASSIGN = re.compile(r'^([A-Za-z_][A-Za-z0-9_]*)=(.*)$', re.S)
SH_FUNC = re.compile(r'(?:^|(?<=[\n;]))[ \t]*(?:function[ \t]+([A-Za-z_]\w*)'
                     r'[ \t]*(?:\([ \t]*\))?|([A-Za-z_]\w*)[ \t]*\([ \t]*\))'
                     r'[ \t\n]*\{')
SH_VAR = re.compile(r'^\$(?:([A-Za-z_]\w*)|\{([A-Za-z_]\w*)'
                    r'(?:(:?[-=+?])([^}]*))?\})$')


class Flat:
    """linear text of what a script builder writes / returns: `text`, and for
    every chunk of it the function and the ast node it comes from"""

    def __init__(self, prog, f):
        self.prog = prog
        self.root = f
        self.parts = []             # (text, func, node)
        self.lossy = set()          # functions whose text lost a separator
        self._tev = {}
        self._seq(self._T(f).script(), f, (f.where,))
        self.text = ''.join(p[0] for p in self.parts)
        self.starts = []
        pos = 0
        for t, g, n in self.parts:
            self.starts.append(pos)
            pos += len(t)

    def _T(self, f):
        if f.where not in self._tev:
            self._tev[f.where] = TextEval(self.prog, f)
            if self._tev[f.where].lossy:
                self.lossy.add(f.where)
        return self._tev[f.where]

    def _put(self, text, f, node):
        if text:
            self.parts.append((text, f, node))

    def _value(self, f, v, conv):
        """text of a format value if it is a constant"""
        if isinstance(v, ast.Name):
            ds = local_defs(f.node).get(v.id, [])
            if len(ds) == 1 and isinstance(ds[0], ast.Constant) and \
                    v.id not in f.params:
                v = ds[0]
        c = v.value if isinstance(v, ast.Constant) else \
            self.prog.fold(f.module, v, f.cls) \
            if isinstance(v, (ast.Name, ast.Attribute)) else UNKNOWN
        if isinstance(c, bool) or not isinstance(c, (str, int)):
            return HOLE
        try:
            return conv % c
        except (TypeError, ValueError):
            return HOLE

    def _seq(self, sq, f, stack):
        for x in sq:
            if not isinstance(x, Item):
                subs = [x[1]] if x[0] == 'loop' else x[1]
                for sub in subs:
                    self._put(OPEN, f, None)
                    self._seq(sub, f, stack)
                    self._put(CLOSE, f, None)
                continue
            if x.kind == 'const':
                self._put(x.text, f, x.node)
            elif x.kind == 'fmt':
                masked = x.text.replace('%%', '\4\4')
                convs = list(FMT_RE.finditer(masked))
                if len(convs) != len(x.vals):
                    self._put(OPAQ, f, x.node)
                    continue
                pos, out = 0, ''
                for m, v in zip(convs, x.vals):
                    out += x.text[pos:m.start()].replace('%%', '%')
                    out += self._value(f, v, m.group(0))
                    pos = m.end()
                self._put(out + x.text[pos:].replace('%%', '%'), f, x.node)
            elif x.kind == 'call':
                g = self.prog.resolve_call(f, x.node)
                if g is not None and g.cls is not None and \
                        g.where not in stack and len(stack) < 5:
                    T = self._T(g)
                    if T.returns or T.sinks:
                        self._seq(T.script(), g, stack + (g.where,))
                        continue
                self._put(OPAQ, f, x.node)
            else:
                self._put(self._attr_text(f, x.node) or OPAQ, f, x.node)

    def _attr_text(self, f, e):
        """text (with holes) of `self.X` if X is a class level string which
        no method rebinds: `_header = '#!%s\n' % _shell`"""
        if not (isinstance(e, ast.Attribute) and isinstance(e.value, ast.Name)
                and e.value.id == 'self' and f.cls is not None):
            return None
        val = None
        for K in self.prog.mro(f.cls):
            if any(e.attr in self_defs(m.node) for m in K.methods.values()):
                return None
            if val is None and e.attr in K.consts:
                val = K.consts[e.attr]
        if val is None:
            return None

        def text(v):
            if isinstance(v, ast.Constant) and isinstance(v.value, str):
                return v.value
            if isinstance(v, ast.BinOp) and isinstance(v.op, ast.Add):
                a, b = text(v.left), text(v.right)
                return a + b if a is not None and b is not None else None
            if isinstance(v, ast.BinOp) and isinstance(v.op, ast.Mod) and \
                    isinstance(v.left, ast.Constant) and \
                    isinstance(v.left.value, str):
                return FMT_RE.sub(HOLE, v.left.value.replace(
                    '%%', '\4')).replace('\4', '%')
            return None
        return text(val)

    def owner(self, pos):
        """(function, node) of the chunk which holds text offset pos"""
        import bisect
        i = max(bisect.bisect_right(self.starts, pos) - 1, 0)
        return self.parts[i][1], self.parts[i][2]


class ShStmt:
    __slots__ = ('text', 'start', 'words', 'ops')

    def __init__(self, text, start, words, ops):
        self.text, self.start, self.words, self.ops = text, start, words, ops

    @property
    def compound(self):
        return bool(self.ops) or self.words[0] in SH_RESERVED


def sh_statements(s, i, until_brace=True):
    """simple statements of the shell text s from offset i up to (not
    including) the `}` which closes the function body; returns (statements,
    offset behind the `}`) - offset None if the text ends before"""
    out = []
    n = len(s)
    words, ops, cur, wstart, sstart = [], [], '', None, None
    quote, depth = None, []

    def end_word():
        nonlocal cur, wstart
        if cur:
            words.append(cur)
        cur, wstart = '', None

    def end_stmt(pos):
        nonlocal words, ops, sstart
        end_word()
        if words:
            out.append(ShStmt(s[sstart:pos], sstart, words, ops))
        words, ops, sstart = [], [], None

    while i < n:
        c = s[i]
        if sstart is None and not c.isspace():
            sstart = i
        if quote == "'":
            cur += c
            if c == "'":
                quote = None
            i += 1
            continue
        if c == '\\' and i + 1 < n:
            if s[i + 1] == '\n':
                i += 2
                continue
            cur += s[i:i + 2]
            i += 2
            continue
        if c == '$' and i + 1 < n and s[i + 1] in '{(':
            depth.append('}' if s[i + 1] == '{' else ')')
            cur += s[i:i + 2]
            i += 2
            continue
        if depth and c == depth[-1]:
            depth.pop()
            cur += c
            i += 1
            continue
        if depth and c == '(':
            depth.append(')')
            cur += c
            i += 1
            continue
        if c == '`':
            quote = None if quote == '`' else '`' if quote is None else quote
            cur += c
            i += 1
            continue
        if c == '"' and quote in (None, '"'):
            quote = None if quote else '"'
            cur += c
            i += 1
            continue
        if quote or depth:
            cur += c
            i += 1
            continue
        if c == "'":
            quote = "'"
            cur += c
            i += 1
            continue
        if c == '#' and not cur:
            while i < n and s[i] != '\n':
                i += 1
            continue
        if c in ' \t':
            end_word()
            i += 1
            continue
        if c in '\n;':
            end_stmt(i)
            i += 1
            continue
        if c in '&|':
            redirect = (c == '&' and ((i and s[i - 1] in '<>') or
                                      (i + 1 < n and s[i + 1] == '>')))
            if not redirect:
                ops.append(s[i:i + 2] if i + 1 < n and s[i + 1] == c else c)
                end_word()
                i += 2 if i + 1 < n and s[i + 1] == c else 1
                continue
        if c == '}' and until_brace and not cur and not words:
            return out, i + 1
        cur += c
        i += 1
    end_stmt(n)
    return out, None


def sh_functions(text):
    """[(name, offset of the definition, body start, body end)] of the shell
    functions defined in text"""
    out = []
    pos = 0
    while True:
        m = SH_FUNC.search(text, pos)
        if m is None:
            return out
        _, end = sh_statements(text, m.end())
        out.append((m.group(1) or m.group(2), m.start(), m.end(), end))
        pos = end if end is not None else m.end()


def sh_unquote(w):
    if len(w) >= 2 and w[0] == w[-1] and w[0] in '"\'':
        return w[1:-1]
    return w


def sh_status_word(w):
    """classify the argument of exit / the right side of an assignment:
    ('int', n) | ('status',) `$?` | ('var', name, op, default) | None"""
    w = sh_unquote(w)
    if re.match(r'^\d+$', w):
        return ('int', int(w))
    if w in ('$?', '${?}'):
        return ('status',)
    m = SH_VAR.match(w)
    if m:
        return ('var', m.group(1) or m.group(2), m.group(3), m.group(4))
    return None


def sh_assignments(text, var, skip=()):
    """[(offset, right side)] of the assignments to var in text outside the
    offset ranges `skip`"""
    out = []
    for m in re.finditer(r'(?:^|(?<=[\s;&|({]))(?:(?:export|local|readonly|'
                         r'declare)[ \t]+)?%s=([^\s;]*)' % re.escape(var),
                         text):
        if not any(a <= m.start() < (b if b is not None else len(text))
                   for a, b in skip):
            out.append((m.start(), m.group(1)))
    return out


EXIT_HISTORY = ("post_exec=['test -f output.dat'] (or a per-rank entry, or a "
                'post_launch command) which fails after the executable exited '
                'with 0: the guard calls rp_error, the script ends with exit '
                'code 0, Popen sees 0 and the task is DONE although a post '
                'command failed')


def decide_rp_error(rep, rid, F, name, body, end, scripts):
    """the body of one definition of the shell function rp_error"""
    text = F.text
    g, node = F.owner(body)
    where = '%s (shell function `%s` in the text of %s)' % (
        g.where, name, g.qual)
    if end is None:
        raise AnalysisError('UNRECOGNISED-IDIOM %s: the body of `%s` is not '
                            'closed in the text of this builder' % (g.where,
                                                                    name))
    region = text[body:end]
    if OPEN in region or CLOSE in region or g.where in F.lossy:
        raise AnalysisError('UNRECOGNISED-IDIOM %s: the body of `%s` is put '
                            'together conditionally / in a loop / by a join '
                            'the checker cannot follow' % (g.where, name))
    stmts, _ = sh_statements(text, body)
    nonzero, zero, assigned = set(), set(), set()
    decisive = None
    for k, st in enumerate(stmts):
        w0 = st.words[0]
        if OPAQ in st.text or HOLE in w0:
            raise AnalysisError('UNRECOGNISED-IDIOM %s: statement `%s` of '
                                '`%s` is not constant text' % (
                                    g.where, st.text[:40], name))
        if st.compound:
            if any(w in ('exit', 'return', 'exec', 'kill') for w in st.words) \
                    or w0 in SH_RESERVED:
                raise AnalysisError('UNRECOGNISED-IDIOM %s: control flow '
                                    'inside `%s` (`%s`)' % (g.where, name,
                                                            st.text[:40]))
            continue
        ws = st.words[1:] if w0 in ('local', 'export', 'readonly') and \
            len(st.words) > 1 else st.words
        m = SH_ASSIGN.match(ws[0])
        if m and len(ws) == 1:
            v = sh_status_word(m.group(2))
            assigned.add(m.group(1))
            nonzero.discard(m.group(1))
            zero.discard(m.group(1))
            if v and v[0] == 'int':
                (nonzero if v[1] % 256 else zero).add(m.group(1))
            elif v and v[0] == 'status' and k == 0:
                nonzero.add(m.group(1))     # status of the failed command
            continue
        if w0 in ('exit', 'return'):
            decisive = (k, st)
            break
        if w0 not in SH_BENIGN:
            raise AnalysisError('UNRECOGNISED-IDIOM %s: `%s` runs `%s`, which '
                                'may end the script itself' % (g.where, name,
                                                               st.text[:40]))
    g, node = F.owner(decisive[1].start if decisive else body)

    def bad(construct, why):
        rep.bad(rid, g, construct, 'the shell function `%s` which %s '
                'generates for both task scripts %s.  Every pre/post command '
                'is guarded by `<cmd> || %s <section>`: with this body a '
                'failing command does not end the script with a non-zero '
                'exit code' % (name, g.qual, why, name),
                g.loc(node) if node is not None else g.loc(),
                history=EXIT_HISTORY)

    if decisive is None:
        bad('rp_error:no-exit', 'has no `exit` statement: it returns to the '
            'line after the failed command and the script carries on')
        return
    k, st = decisive
    stext = ' '.join(st.words)
    if st.words[0] == 'return':
        bad('rp_error:return', 'ends with `%s` instead of `exit`: the '
            'function returns, the script carries on with the line after the '
            'failed command (a failing pre_exec no longer prevents the '
            'executable)' % stext)
        return
    if len(st.words) > 2:
        raise AnalysisError('UNRECOGNISED-IDIOM %s: `%s` in `%s`'
                            % (g.where, stext, name))
    arg = sh_status_word(st.words[1]) if len(st.words) == 2 else ('status',)
    if arg is None:
        raise AnalysisError('UNRECOGNISED-IDIOM %s: exit status `%s` of `%s`'
                            % (g.where, st.words[1], name))
    if arg[0] == 'int':
        if arg[1] % 256:
            rep.ok(rid, g, '`%s` ends the script with the constant non-zero '
                   'status %d' % (name, arg[1]), g.loc(node))
        else:
            bad('rp_error:exit-zero', 'ends with `%s`: status 0' % stext)
        return
    if arg[0] == 'status':
        if k == 0:
            rep.ok(rid, g, '`%s` ends the script with the status of the '
                   'failed command (`%s` is its first statement)'
                   % (name, stext), g.loc(node))
        else:
            bad('rp_error:exit-status', 'ends with `%s` after `%s`: the '
                'status is that of the statement before it (0 when the %s '
                'succeeds), not that of the failed command'
                % (stext, stmts[k - 1].text.strip()[:40],
                   stmts[k - 1].words[0]))
        return
    var, op, dflt = arg[1], arg[2], arg[3]
    if var in assigned:
        if var in nonzero and op in (None, ':-', '-', ':=', '='):
            rep.ok(rid, g, '`%s` ends the script with $%s, which it set to a '
                   'non-zero status itself' % (name, var), g.loc(node))
        elif var in zero:
            bad('rp_error:exit-zero', 'ends with `%s` and sets %s to 0'
                % (stext, var))
        else:
            raise AnalysisError('UNRECOGNISED-IDIOM %s: `%s` in `%s`: value '
                                'of %s' % (g.where, stext, name, var))
        return
    # a variable of the surrounding script: what do the scripts put there?
    sets = []
    for S, skip in scripts:
        for off, rhs in sh_assignments(S.text, var, skip):
            v = sh_status_word(rhs)
            if not (v and v[0] == 'int' and v[1] % 256):
                sets.append((S, off, rhs))
    if not sets:
        raise AnalysisError('UNRECOGNISED-IDIOM %s: `%s` in `%s`: the scripts '
                            'never set %s' % (g.where, stext, name, var))
    S, off, rhs = sets[0]
    sg, _ = S.owner(off)
    bad('rp_error:exit-var:%s' % var, 'ends with `%s`: the exit status of the '
        'error path is the shell variable %s, which the script sets by `%s=%s` '
        '(text of %s) - it is 0 after a successful executable%s' % (
            stext, var, var, rhs, sg.qual,
            '; the default only applies while the variable is unset'
            if op else ''))


def r10_7(prog, rep, rid='R10.7'):
    rep.rule(rid, 'exit codes: the shell function rp_error of the generated '
             'scripts is defined before the first guard line and ends the '
             'script with a status which cannot be 0 (a literal non-zero '
             '`exit`, not a variable such as RP_RET); the last statement of '
             'each script is `exit` with the variable which captured `$?` of '
             'the executable / launch command', minimum=5)
    flats = []
    for name in ('_create_exec_script', '_create_launch_script'):
        f = prog.method(EXE[0], EXE[1], name)
        rep.saw(f)
        F = Flat(prog, f)
        if not F.text.strip(HOLE + OPAQ + OPEN + CLOSE):
            raise AnalysisError('UNRECOGNISED-IDIOM %s: cannot tell which '
                                'text this function writes' % f.where)
        funcs = sh_functions(F.text)
        flats.append((F, f, funcs))
    scripts = [(F, [(b, e) for _, _, b, e in funcs]) for F, f, funcs in flats]
    done = set()
    for F, f, funcs in flats:
        what = 'exec script' if 'exec' in f.name else 'launch script'
        skip = [(b, e) for _, _, b, e in funcs]
        text = F.text
        # ---- rp_error: defined before its first use, and what it ends with
        defs = [x for x in funcs if x[0] == 'rp_error']
        uses = [m.start() for m in GUARD_RE.finditer(text)
                if not any(a <= m.start() < (b or len(text)) for a, b in skip)]
        if not uses:
            raise AnalysisError('UNRECOGNISED-IDIOM %s: no `|| rp_error` '
                                'guard line in the text of the %s' % (f.where,
                                                                      what))
        first = uses[0]
        if not defs:
            if F.lossy:
                raise AnalysisError('UNRECOGNISED-IDIOM %s: no definition of '
                                    'rp_error found, and %s join(s) text with '
                                    'a separator the checker lost track of'
                                    % (f.where, sorted(F.lossy)))
            if OPAQ in text[:first]:
                raise AnalysisError('UNRECOGNISED-IDIOM %s: no definition of '
                                    'rp_error in the text of the %s the '
                                    'checker can see' % (f.where, what))
            rep.bad(rid, f, '%s:rp_error:undefined' % what,
                    'the %s written by %s guards its pre/post commands with '
                    '`|| rp_error <section>` but never defines the shell '
                    'function rp_error: bash reports `rp_error: command not '
                    'found` and carries on' % (what, f.qual), f.loc(),
                    history="pre_launch=['false'] / pre_exec=['false']: the "
                    'executable runs although the command before it failed, '
                    'the script exits with the exit code of the executable')
        if defs:
            rep.check(min(d[1] for d in defs) < first, rid, f,
                      '%s: rp_error is defined before the first guard line' % what,
                      construct='%s:rp_error:order' % what,
                      message='the %s written by %s defines the shell function '
                      'rp_error only after the first `|| rp_error` line: the '
                      'first failing command finds no such function and the '
                      'script carries on' % (what, f.qual), loc=f.loc(),
                      history="launcher env / pre_launch / pre_exec command "
                      'fails: `rp_error: command not found`, the executable runs')
        for name, at, body, end in defs:
            g, node = F.owner(body)
            key = (g.where, id(node))
            if key in done:
                continue
            done.add(key)
            decide_rp_error(rep, rid, F, name, body, end, scripts)
        # ---- the end of the script
        stmts, _ = sh_statements(text, 0, until_brace=False)
        marks = [i for i, c in enumerate(text) if c in (OPEN, CLOSE)]
        exits = []
        for st in stmts:
            if st.words[0].strip(OPEN + CLOSE + OPAQ + HOLE) != 'exit':
                continue
            if any(a <= st.start < (b or len(text)) for a, b in skip):
                continue
            at = st.start + st.text.index('exit')
            d = sum(1 if text[i] == OPEN else -1 for i in marks if i < at)
            exits.append((st, d))
        if not exits:
            rep.bad(rid, f, '%s:exit:missing' % what, 'the %s written by %s '
                    'has no `exit` statement of its own: its exit code is '
                    'that of its last command (a profile line), not that of '
                    'the executable' % (what, f.qual), f.loc(),
                    history='the executable exits with 3: the script exits '
                    'with 0 and the task is DONE')
            continue
        if len(exits) > 1 or exits[-1][1] != 0 or exits[-1][0].compound or \
                len(exits[-1][0].words) > 2:
            raise AnalysisError('UNRECOGNISED-IDIOM %s: `exit` statements of '
                                'the %s: %s' % (f.where, what, [
                                    st.text[:30] for st, d in exits]))
        st = exits[-1][0]
        g, node = F.owner(st.start)
        stext = ' '.join(st.words)
        arg = sh_status_word(st.words[1]) if len(st.words) == 2 \
            else ('status',)
        if arg is None:
            raise AnalysisError('UNRECOGNISED-IDIOM %s: `%s` of the %s'
                                % (f.where, stext, what))
        lost = ('the executable exits with 3: the %s exits with another code '
                '(0: the task is DONE; constant non-zero: every task FAILED)'
                % what)
        if arg[0] != 'var':
            rep.bad(rid, g, '%s:exit' % what, 'the %s ends with `%s`, not '
                    'with the variable which captured `$?` of the %s: the '
                    'exit code of the executable is lost' % (
                        what, stext, 'executable' if 'exec' in what
                        else 'launch command'),
                    g.loc(node) if node is not None else g.loc(),
                    history=lost)
            continue
        var = arg[1]
        sets = sh_assignments(text, var, skip)
        caps = [(o, r) for o, r in sets if sh_status_word(r) == ('status',)]
        if len(caps) != 1 or any(o > st.start for o, r in sets):
            raise AnalysisError('UNRECOGNISED-IDIOM %s: the %s ends with `%s` '
                                'and sets %s by %s' % (
                                    f.where, what, stext, var,
                                    [r for o, r in sets] or 'nothing'))
        late = [(o, r) for o, r in sets if o > caps[0][0]]
        rep.check(not late, rid, g, '%s: ends with `%s`, %s holds `$?` taken '
                  'after the %s' % (what, stext, var, 'executable' if 'exec'
                                    in what else 'launch command'),
                  construct='%s:exit' % what,
                  message='the %s ends with `%s`, but after `%s=$?` the text '
                  'sets %s again (`%s=%s`): the exit code of the executable '
                  'is overwritten' % (what, stext, var, var, var,
                                      late[0][1] if late else ''),
                  loc=g.loc(node) if node is not None else g.loc(),
                  history=lost)


# ------------------------------------------------------------------------------
#
def run(prog, rep, tier):
    rep.decided = ('each `export RP_X=` line of _get_rp_env / _get_rank_ids is '
        'fed by the source it stands for (task uid/name, pilot and session '
        'ids, sandboxes, registry and control bridge addresses addr_pub / '
        'addr_sub, cores and gpus per rank, rank count) and the component '
        'attributes behind them come from the session config; '
        "td['arguments'] reach the command only element-wise through "
        "ru.sh_quote; td['environment'] values reach the export lines only "
        'through a quoting function (they do not today: known finding); '
        'section order of exec and launch script, cd to the sandbox, '
        'stdout/stderr redirect fed by the described names, RP_RET taken '
        'right after the command, per-rank case covers range(n_ranks) and is '
        'keyed by the rank id; the named environment is sourced before the '
        "td['environment'] exports; per-rank entries the executor adds "
        '(CUDA_VISIBLE_DEVICES) use the key type and form of the lookup in '
        '_get_prep_exec; each script line which holds a described pre/post '
        'command (global and per-rank branch of _get_prep_exec, '
        '_get_prep_launch, helpers which build such lines) has the form '
        '`<one element of the list> || rp_error <section>`; the generated '
        'shell function rp_error is defined before the first guard line and '
        'its body (modelled as shell statements) ends the script with a '
        'status which cannot be 0; each script ends with `exit $V`, V being '
        'set only by the `V=$?` which follows the executable / the launch '
        "command; no filter looks at the value of an element of "
        "td['arguments'] / an entry of td['environment'] on its way into the "
        "text, and the export lines depend on td['environment'] only; the "
        'per-rank switch is generated for every list of entries which holds '
        'a dict; relative / absolute form of the stdout (stderr) name is '
        'decided by tests on that name; the rank command of every launcher '
        'of the factory table exports the variable which the per-rank '
        '`case` switch reads, and _get_rank_ids tests for that export; an '
        'export line of _get_rp_env whose value may refer to `$Y` comes after '
        'the line which exports Y.')
    rep.undecided = ('what bash does with the generated text: `$`, back-ticks '
        'and globs inside sh_quote\'d words (library code), the unquoted '
        'executable and pre/post commands (they are shell text by contract), '
        'environment variable *names*, rank synchronisation at run time.')
    rep.assumptions = [
        'ru.sh_quote quotes one word (trusted library code); a call whose '
        'dotted name ends in sh_quote / shlex.quote is a quoting function',
        'taint is flow-insensitive per function and follows resolved self '
        'calls; unresolved calls propagate all arguments to their result',
        'the registry accepts dotted keys: reg[\'a.b\'][\'c\'] == '
        'reg[\'a.b.c\']',
        'script text is built by `x += piece` / `x = x + piece` on one '
        'accumulator per function (other shapes stop with UNRECOGNISED-IDIOM)',
        'R10.7 reads the generated text as POSIX shell: statements end at '
        'newline / `;` outside quotes, ${..} and $(..); a function body ends '
        'at a `}` in command position; `set -e` is not in force',
    ]
    classes = factory_classes(prog)
    r10_1(prog, rep)
    r10_8_rule(rep)
    r10_2(prog, rep, classes, rid8='R10.8')
    rep.attempt(r10_8, prog, rep)
    r10_3(prog, rep)
    r10_4(prog, rep)
    r10_5(prog, rep)
    rep.attempt(r10_6, prog, rep)
    rep.attempt(r10_7, prog, rep)
    rep.attempt(r10_9, prog, rep)
    rep.attempt(r10_10, prog, rep, classes)
    rep.attempt(r10_11, prog, rep)
    rep.attempt(r10_12, prog, rep)
    if tier == 'thorough':
        # sweep: every launcher class of the package (not only the factory
        # table) and every executor class: argument quoting in get_exec
        base = prog.cls(*LM)
        extra = [k for k in prog.subclasses(base, strict=True)
                 if k not in classes]
        rep.stat('sweep classes', len(extra))
        r10_2(prog, rep, extra, rid='R10.2s', minimum=0)
        rep.rules['R10.2s'] = 'sweep of R10.2 over launcher classes outside ' \
            'the factory table (%d)' % len(extra)
        if any(prog.find_method(k, 'get_rank_cmd') is not None and
               prog.find_method(k, 'get_rank_cmd').cls is not base
               for k in extra):
            rep.attempt(r10_10, prog, rep, extra, rid='R10.10s', minimum=0)
            rep.rules['R10.10s'] = 'sweep of R10.10 over launcher classes ' \
                'outside the factory table'


# ------------------------------------------------------------------------------
# self-test variants
#
_E = 'agent/executing/base.py'
_P = 'agent/executing/popen.py'
_B = 'agent/launch_method/base.py'

FIX_F17 = [
    (_E, "        ctrl_sub_addr = self._reg['bridges.control_pubsub']['addr_pub']",
         "        ctrl_sub_addr = self._reg['bridges.control_pubsub']['addr_sub']"),
]

MUTATIONS = [
    dict(name='R10.1 F17 repaired, PUB address now reads addr_sub', rules=('R10.1',), edits=FIX_F17 + [
        (_E, "        ctrl_pub_addr = self._reg['bridges.control_pubsub']['addr_pub']",
             "        ctrl_pub_addr = self._reg['bridges.control_pubsub']['addr_sub']")]),
    dict(name='R10.1 pilot id and session id swapped', rules=('R10.1',), edits=[
        (_E, "        ret += 'export RP_PILOT_ID=\"%s\"\\n'          % self.pid\n        ret += 'export RP_SESSION_ID=\"%s\"\\n'        % self.sid\n",
             "        ret += 'export RP_PILOT_ID=\"%s\"\\n'          % self.sid\n        ret += 'export RP_SESSION_ID=\"%s\"\\n'        % self.pid\n")]),
    dict(name='R10.1 session and pilot sandbox exports swapped', rules=('R10.1',), edits=[
        (_E, "        ret += 'export RP_SESSION_SANDBOX=\"%s\"\\n'   % self.ssbox\n        ret += 'export RP_PILOT_SANDBOX=\"%s\"\\n'     % self.psbox\n",
             "        ret += 'export RP_SESSION_SANDBOX=\"%s\"\\n'   % self.psbox\n        ret += 'export RP_PILOT_SANDBOX=\"%s\"\\n'     % self.ssbox\n")]),
    dict(name='R10.1 cores per rank exported from ranks', rules=('R10.1',), edits=[
        (_E, "        ret += 'export RP_CORES_PER_RANK=%d\\n'      % td['cores_per_rank']", "        ret += 'export RP_CORES_PER_RANK=%d\\n'      % td['ranks']")]),
    dict(name='R10.1 gpus per rank formatted from cores per rank', rules=('R10.1',), edits=[
        (_E, "        gpr = td['gpus_per_rank']\n", "        gpr = td['cores_per_rank']\n")]),
    dict(name='R10.1 task sandbox exported as pilot sandbox', rules=('R10.1',), edits=[
        (_E, "        ret += 'export RP_TASK_SANDBOX=\"%s\"\\n'      % sbox", "        ret += 'export RP_TASK_SANDBOX=\"%s\"\\n'      % self.psbox")]),
    dict(name='R10.1 task name is always the uid', rules=('R10.1',), edits=[
        (_E, "        name = task.get('name') or tid\n", "        name = tid\n")]),
    dict(name='R10.1 RP_TASK_ID line dropped', rules=('R10.1',), edits=[
        (_E, "        ret += 'export RP_TASK_ID=\"%s\"\\n'           % tid\n", "")]),
    dict(name='R10.1 session id exported from the pilot id attribute', rules=('R10.1',), edits=[
        (_E, "        ret += 'export RP_SESSION_ID=\"%s\"\\n'        % self.sid\n", "        ret += 'export RP_SESSION_ID=\"%s\"\\n'        % self.session.cfg.pid\n")]),
    dict(name='R10.1 component pid taken from the session uid', rules=('R10.1',), edits=[
        (_E, "        self.pid       = self.session.cfg.pid\n", "        self.pid       = self.session.uid\n")]),
    dict(name='R10.1 session sandbox initialised from the pilot sandbox', rules=('R10.1',), edits=[
        (_E, "        self.ssbox     = self.session.cfg.session_sandbox\n", "        self.ssbox     = self.session.cfg.pilot_sandbox\n")]),
    dict(name='R10.1 RP_RANKS is a constant', rules=('R10.1',), edits=[
        (_E, "        ret += 'export RP_RANKS=%s\\n' % n_ranks\n", "        ret += 'export RP_RANKS=1\\n'\n")]),
    dict(name='R10.1 rank ids built for cores_per_rank ranks', rules=('R10.1',), edits=[
        (_E, "        tmp += self._get_rank_ids(n_ranks, launcher)\n", "        tmp += self._get_rank_ids(td['cores_per_rank'], launcher)\n")]),
    dict(name='R10.2 arguments joined without quoting', rules=('R10.2',), edits=[
        (_B, "            return ' '.join([ru.sh_quote(arg) for arg in args])", "            return ' '.join([str(arg) for arg in args])")]),
    dict(name='R10.2 only arguments with blanks are quoted', rules=('R10.2',), edits=[
        (_B, "            return ' '.join([ru.sh_quote(arg) for arg in args])", "            return ' '.join([ru.sh_quote(arg) if ' ' in arg else arg\n                             for arg in args])")]),
    dict(name='R10.2 argument list quoted as one word', rules=('R10.2',), edits=[
        (_B, "            return ' '.join([ru.sh_quote(arg) for arg in args])", "            return ru.sh_quote(' '.join(args))")]),
    dict(name='R10.2 get_exec bypasses the quoting helper', rules=('R10.2',), edits=[
        (_B, "        task_argstr  = self._create_arg_string(task_args)\n", "        task_argstr  = ' '.join(task_args)\n")]),
    dict(name='R10.2 get_exec drops the arguments', rules=('R10.2',), edits=[
        (_B, "        command      = '%s %s' % (task_exec, task_argstr)\n", "        command      = '%s' % task_exec\n")]),
    dict(name='R10.2 executor appends raw arguments to the exec section', rules=('R10.2',), edits=[
        (_E, "        ret  = '%s &\\n' % launcher.get_exec(task)\n", "        ret  = '%s %s &\\n' % (launcher.get_exec(task),\n                               ' '.join(task['description']['arguments'][1:]))\n")]),
    dict(name='R10.3 pre_exec after the executable', rules=('R10.3',), edits=[
        (_E, "        tmp += self._get_prep_exec(task, n_ranks, sig='pre_exec')\n", ""),
        (_E, "        tmp += self._get_exec(task, launcher)\n", "        tmp += self._get_exec(task, launcher)\n        tmp += self._get_prep_exec(task, n_ranks, sig='pre_exec')\n")]),
    dict(name='R10.3 post_exec section runs the pre_exec commands', rules=('R10.3',), edits=[
        (_E, "        tmp += self._get_prep_exec(task, n_ranks, sig='post_exec')\n", "        tmp += self._get_prep_exec(task, n_ranks, sig='pre_exec')\n")]),
    dict(name='R10.3 task environment set after pre_exec', rules=('R10.3',), edits=[
        (_E, "        tmp += self._get_task_env(task, launcher)\n\n", ""),
        (_E, "        tmp += self._get_prep_exec(task, n_ranks, sig='pre_exec')\n", "        tmp += self._get_prep_exec(task, n_ranks, sig='pre_exec')\n        tmp += self._get_task_env(task, launcher)\n")]),
    dict(name='R10.3 task env computed but not added to the script', rules=('R10.3',), edits=[
        (_E, "        tmp += self._get_task_env(task, launcher)\n", "        env  = self._get_task_env(task, launcher)\n")]),
    dict(name='R10.3 post_launch before the launch command', rules=('R10.3',), edits=[
        (_E, "            tmp += self._get_prep_launch(task, sig='post_launch')\n", ""),
        (_E, "            tmp += self._get_prof('launch_submit')\n", "            tmp += self._get_prep_launch(task, sig='post_launch')\n            tmp += self._get_prof('launch_submit')\n")]),
    dict(name='R10.3 launch script stays in the pilot sandbox', rules=('R10.3',), edits=[
        (_E, "            tmp += 'cd $RP_TASK_SANDBOX\\n'\n", "            tmp += 'cd $RP_PILOT_SANDBOX\\n'\n")]),
    dict(name='R10.3 stdout and stderr redirect swapped', rules=('R10.3',), edits=[
        (_E, "        ret += ') 1> %s \\\\\\n  2> %s\\n' % (task['stdout_file_short'],\n                                          task['stderr_file_short'])",
             "        ret += ') 1> %s \\\\\\n  2> %s\\n' % (task['stderr_file_short'],\n                                          task['stdout_file_short'])")]),
    dict(name='R10.3 launch pid recorded before the exit code', rules=('R10.3',), edits=[
        (_E, "        ret += 'RP_RET=$?\\n'\n        ret += 'RP_LAUNCH_PID=$$\\n'\n", "        ret += 'RP_LAUNCH_PID=$$\\n'\n        ret += 'RP_RET=$?\\n'\n")]),
    dict(name='R10.3 echo between wait and RP_RET', rules=('R10.3',), edits=[
        (_E, "        ret += 'wait $RP_RANK_PID\\n'\n", "        ret += 'wait $RP_RANK_PID\\n'\n        ret += 'echo rank done\\n'\n")]),
    dict(name='R10.3 launcher asked for the command of the launch script', rules=('R10.3',), edits=[
        (_E, "        for cmd in ru.as_list(launcher.get_launch_cmds(task, exec_path)):", "        for cmd in ru.as_list(launcher.get_launch_cmds(task, task['launch_path'])):")]),
    dict(name='R10.3 per-rank case skips rank 0', rules=('R10.3',), edits=[
        (_E, "        for rank_id in range(n_ranks):", "        for rank_id in range(1, n_ranks):")]),
    dict(name='R10.3 plain string entries only run on rank 0', rules=('R10.3',), edits=[
        (_E, "                    entry = {str(rank_id): entry}", "                    entry = {'0': entry}")]),
    dict(name='R10.3 per-rank switch sized by cores per rank', rules=('R10.3',), edits=[
        (_E, "        n_ranks = td['ranks']\n", "        n_ranks = td['cores_per_rank']\n")]),
    dict(name='R10.3 stderr file named after stdout', rules=('R10.3',), edits=[
        (_P, "        stderr_file    = td.get('stderr') or '%s.err' % tid", "        stderr_file    = td.get('stdout') or '%s.err' % tid")]),
]
# (K4 is reported under one stable key, so a variant which merely keeps a
# value unquoted cannot show as a *new* finding: R10.4 is exercised by a variant
# with a different finding and by the repaired form among SILENT)
MUTATIONS += [
    dict(name='R10.4 task environment values are not exported at all', rules=('R10.4',), edits=[
        (_E, "                ret += 'export %s=\"%s\"\\n' % (key, val)\n", "                ret += 'export %s=\"\"\\n' % key\n")]),
]

SILENT = [
    dict(name='F17 repaired (proposed fix)', edits=FIX_F17),
    dict(name='registry read with one dotted key', edits=[
        (_E, "        ctrl_pub_addr = self._reg['bridges.control_pubsub']['addr_pub']", "        ctrl_pub_addr = self._reg['bridges.control_pubsub.addr_pub']")]),
    dict(name='exports through renamed locals and .get()', edits=[
        (_E, "        ret += 'export RP_CORES_PER_RANK=%d\\n'      % td['cores_per_rank']", "        cpr  = td.get('cores_per_rank')\n        ret += 'export RP_CORES_PER_RANK=%d\\n'      % cpr")]),
    dict(name='session id exported straight from the session', edits=[
        (_E, "        ret += 'export RP_SESSION_ID=\"%s\"\\n'        % self.sid\n", "        ret += 'export RP_SESSION_ID=\"%s\"\\n'        % self.session.uid\n")]),
    dict(name='redirect to the long file names', edits=[
        (_E, "        ret += ') 1> %s \\\\\\n  2> %s\\n' % (task['stdout_file_short'],\n                                          task['stderr_file_short'])",
             "        ret += ') 1> %s \\\\\\n  2> %s\\n' % (task['stdout_file'],\n                                          task['stderr_file'])")]),
    dict(name='per-rank lookup by subscript after a membership test', edits=[
        (_E, "                for cmd in ru.as_list(entry.get(str(rank_id))):", "                rid = str(rank_id)\n                for cmd in ru.as_list(entry[rid] if rid in entry else None):")]),
    dict(name='export as f-string', edits=[
        (_E, "        ret += 'export RP_PILOT_ID=\"%s\"\\n'          % self.pid\n", "        ret += f'export RP_PILOT_ID=\"{self.pid}\"\\n'\n")]),
    dict(name='two exports reordered', edits=[
        (_E, "        ret += 'export RP_GTOD=\"%s\"\\n'             % self.gtod\n        ret += 'export RP_PROF=\"%s\"\\n'             % self.prof\n",
             "        ret += 'export RP_PROF=\"%s\"\\n'             % self.prof\n        ret += 'export RP_GTOD=\"%s\"\\n'             % self.gtod\n")]),
    dict(name='arguments quoted in a loop with a renamed local', edits=[
        (_B, "            return ' '.join([ru.sh_quote(arg) for arg in args])", "            words = list()\n            for a in args:\n                words.append(ru.sh_quote(a))\n            return ' '.join(words)")]),
    dict(name='get_exec quotes inline', edits=[
        (_B, "        task_argstr  = self._create_arg_string(task_args)\n", "        task_argstr  = ' '.join(ru.sh_quote(x) for x in task_args)\n")]),
    dict(name='pre_exec section only when described', edits=[
        (_E, "        tmp += self._get_prep_exec(task, n_ranks, sig='pre_exec')\n", "        if td.get('pre_exec'):\n            tmp += self._get_prep_exec(task, n_ranks, sig='pre_exec')\n")]),
    dict(name='sections joined as tmp = tmp + x', edits=[
        (_E, "        tmp += self._get_exec(task, launcher)\n", "        tmp  = tmp + self._get_exec(task, launcher)\n")]),
    dict(name='independent profile lines reordered around the exec section', edits=[
        (_E, "        tmp += '# execute rank\\n'\n        tmp += self._get_prof('rank_start')\n", "        tmp += self._get_prof('rank_start')\n        tmp += '# execute rank\\n'\n")]),
    dict(name='redirect names through locals', edits=[
        (_E, "        ret += ') 1> %s \\\\\\n  2> %s\\n' % (task['stdout_file_short'],\n                                          task['stderr_file_short'])",
             "        out  = task['stdout_file_short']\n        err  = task['stderr_file_short']\n        ret += ') 1> %s \\\\\\n  2> %s\\n' % (out, err)")]),
    dict(name='rank loop as range(0, n_ranks) with renamed variable', edits=[
        (_E, "        for rank_id in range(n_ranks):\n\n            ret += '    %d)\\n' % rank_id\n", "        for rank_id in range(0, n_ranks):\n\n            ret += '    %d)\\n' % rank_id\n")]),
    dict(name='wait and RP_RET in one piece', edits=[
        (_E, "        ret += 'wait $RP_RANK_PID\\n'\n\n        # set output\n        ret += 'RP_RET=$?\\n'\n", "        ret += 'wait $RP_RANK_PID\\nRP_RET=$?\\n'\n")]),
    dict(name='K4 repaired with sh_quote (values quoted)', edits=[
        (_E, "                ret += 'export %s=\"%s\"\\n' % (key, val)\n", "                ret += 'export %s=%s\\n' % (key, ru.sh_quote(str(val)))\n")]),
]


_RANK_ENV = "            rank_env = {}\n            for rank_id,slot in enumerate(slots):\n                rank_env[str(rank_id)] = \\\n                    'export CUDA_VISIBLE_DEVICES=%s' % \\\n                    ','.join([str(g['index']) for g in slot['gpus']])\n"
_NAMED    = "        # named_env's are prepared by the launcher\n        if td['named_env']:\n            ret += '\\n# named environment\\n'\n            ret += '. %s\\n' % launcher.get_task_named_env(td['named_env'])\n\n"
_ENVIRON  = "        # also add any env vars requested in the task description\n        if td['environment']:\n            ret += '\\n# task env settings\\n'\n            for key, val in td['environment'].items():\n                ret += 'export %s=\"%s\"\\n' % (key, val)\n\n"

MUTATIONS += [
    dict(name='R10.5 per-rank CUDA entry keyed by the int rank index (seed C10-a)', rules=('R10.5',), edits=[
        (_E, _RANK_ENV,
         "            gpu_ids  = [','.join([str(g['index']) for g in slot['gpus']])\n                        for slot in slots]\n            rank_env = {rank_id: 'export CUDA_VISIBLE_DEVICES=%s' % ids\n                        for rank_id,ids in enumerate(gpu_ids)}\n")]),
    dict(name='R10.5 per-rank CUDA entry stored under the loop index', rules=('R10.5',), edits=[
        (_E, "                rank_env[str(rank_id)] = \\\n", "                rank_env[rank_id] = \\\n")]),
    dict(name='R10.5 per-rank CUDA entry keyed one off', rules=('R10.5',), edits=[
        (_E, "                rank_env[str(rank_id)] = \\\n", "                rank_env[str(rank_id + 1)] = \\\n")]),
    dict(name='R10.5 consumer looks entries up by the int rank', rules=('R10.5',), edits=[
        (_E, "                for cmd in ru.as_list(entry.get(str(rank_id))):", "                for cmd in ru.as_list(entry.get(rank_id)):")]),
    dict(name='R10.5 plain strings replicated under an int key', rules=('R10.5',), edits=[
        (_E, "                    entry = {str(rank_id): entry}", "                    entry = {rank_id: entry}")]),
    dict(name='R10.3 named env sourced after the environment exports (seed C10-b)', rules=('R10.3',), edits=[
        (_E, _NAMED + _ENVIRON, _ENVIRON + _NAMED)]),
    dict(name='R10.3 named env sourced at the end of the environment block', rules=('R10.3',), edits=[
        (_E, _NAMED, ""),
        (_E, "                ret += 'export %s=\"%s\"\\n' % (key, val)\n\n",
             "                ret += 'export %s=\"%s\"\\n' % (key, val)\n            if td['named_env']:\n                ret += '. %s\\n' % launcher.get_task_named_env(td['named_env'])\n\n")]),
]

SILENT += [
    dict(name='per-rank CUDA key through a local rid = str(rank_id)', edits=[
        (_E, "                rank_env[str(rank_id)] = \\\n", "                rid = str(rank_id)\n                rank_env[rid] = \\\n")]),
    dict(name='per-rank CUDA key formatted with %d', edits=[
        (_E, "                rank_env[str(rank_id)] = \\\n", "                rank_env['%d' % rank_id] = \\\n")]),
    dict(name='per-rank CUDA entry as a dict comprehension with str keys', edits=[
        (_E, _RANK_ENV,
         "            rank_env = {str(i): 'export CUDA_VISIBLE_DEVICES=%s' %\n                                ','.join([str(g['index']) for g in slot['gpus']])\n                        for i,slot in enumerate(slots)}\n")]),
    dict(name='consumer lookup key as f-string', edits=[
        (_E, "                for cmd in ru.as_list(entry.get(str(rank_id))):", "                for cmd in ru.as_list(entry.get(f'{rank_id}')):")]),
    dict(name='named env path through a local, exports through a local list', edits=[
        (_E, "            ret += '. %s\\n' % launcher.get_task_named_env(td['named_env'])\n", "            env_sh = launcher.get_task_named_env(td['named_env'])\n            ret += '. %s\\n' % env_sh\n"),
        (_E, "            for key, val in td['environment'].items():\n", "            env = td['environment']\n            for key, val in env.items():\n")]),
    dict(name='environment block tests the dict with .get()', edits=[
        (_E, "        if td['environment']:\n            ret += '\\n# task env settings\\n'", "        if td.get('environment'):\n            ret += '\\n# task env settings\\n'")]),
]


# ------------------------------------------------------------------------------
# behaviour-preserving refactorings of the corpus (/verif/seeded/C10-r*):
# each hunk of the patch becomes one text edit of a SILENT variant
#
def edits_from_patch(path):
    import os
    if not os.path.exists(path):
        return None
    edits, rel, old, new = [], None, [], []

    def flush():
        if rel and (old or new) and old != new:
            edits.append((rel, ''.join(old), ''.join(new)))
    with open(path, encoding='utf-8') as fh:
        for line in fh:
            if line.startswith('diff --git') or line.startswith('index ') or \
                    line.startswith('--- '):
                continue
            if line.startswith('+++ '):
                flush()
                old, new = [], []
                name = line[4:].strip()
                name = name[2:] if name.startswith('b/') else name
                pre = 'src/radical/pilot/'
                rel = name[len(pre):] if name.startswith(pre) else None
                continue
            if line.startswith('@@'):
                flush()
                old, new = [], []
            elif line.startswith('+'):
                new.append(line[1:])
            elif line.startswith('-'):
                old.append(line[1:])
            elif line.startswith(' ') or line == '\n':
                old.append(line[1:] if line != '\n' else line)
                new.append(line[1:] if line != '\n' else line)
    flush()
    return edits


def _corpus():
    import os
    here = os.path.dirname(os.path.dirname(os.path.dirname(
        os.path.abspath(__file__))))
    out = []
    for n in range(1, 13):
        name = 'C10-r%d' % n
        ed = edits_from_patch(os.path.join(here, 'seeded', name, 'patch.diff'))
        if ed:
            out.append(dict(name='corpus refactoring %s' % name, edits=ed))
    return out



_PR  = "                for cmd in ru.as_list(entry.get(str(rank_id))):\n                    ret += '        ' + cmd_template % (cmd, sig)\n"
_GL  = "            return ''.join([cmd_template % (x, sig) for x in entries]) + \\\n                   sync_ranks_cmd\n"
_PL  = "        for cmd in ru.as_list(task['description'][sig]):\n            ret += '%s || rp_error %s\\n' % (cmd, sig)\n"
_DEF = "    def _get_prep_exec(self, task, n_ranks, sig):\n"

MUTATIONS += [
    dict(name='R10.6 per-rank commands of one entry joined with `; ` in front of one guard (seed C10-d)', rules=('R10.6',), edits=[
        (_E, _PR, "                # keep the commands of one entry on one line per rank\n                cmds = ru.as_list(entry.get(str(rank_id)))\n                if cmds:\n                    ret += '        ' + cmd_template % ('; '.join(cmds), sig)\n")]),
    dict(name='R10.6 global commands joined into one guarded line', rules=('R10.6',), edits=[
        (_E, _GL, "            return cmd_template % ('; '.join(entries), sig) + sync_ranks_cmd\n")]),
    dict(name='R10.6 per-rank commands joined by newline, guard on the last', rules=('R10.6',), edits=[
        (_E, _PR, "                cmds = ru.as_list(entry.get(str(rank_id)))\n                if cmds:\n                    ret += '        ' + cmd_template % ('\\n        '.join(cmds), sig)\n")]),
    dict(name='R10.6 per-rank commands accumulated into one string before the guard', rules=('R10.6',), edits=[
        (_E, _PR, "                line = ''\n                for cmd in ru.as_list(entry.get(str(rank_id))):\n                    line += cmd + '; '\n                if line:\n                    ret += '        ' + cmd_template % (line + 'true', sig)\n")]),
    dict(name='R10.6 pre/post_launch commands joined into one guarded line', rules=('R10.6',), edits=[
        (_E, _PL, "        cmds = ru.as_list(td[sig])\n        if cmds:\n            ret += '%s || rp_error %s\\n' % (' ; '.join(cmds), sig)\n")]),
    dict(name='R10.6 per-rank value formatted as a whole (no as_list, no iteration)', rules=('R10.6',), edits=[
        (_E, _PR, "                cmds = entry.get(str(rank_id))\n                if cmds:\n                    ret += '        ' + cmd_template % (cmds, sig)\n")]),
    dict(name='R10.6 commands appended to one script line, one guard at its end', rules=('R10.6',), edits=[
        (_E, _PR, "                ret += '        '\n                for cmd in ru.as_list(entry.get(str(rank_id))):\n                    ret += cmd + '; '\n                ret += 'true || rp_error %s\\n' % sig\n")]),
    dict(name='R10.6 two commands in a two-slot guard line', rules=('R10.6',), edits=[
        (_E, _PR, "                cmds = ru.as_list(entry.get(str(rank_id)))\n                if len(cmds) == 2:\n                    ret += '        %s; %s || rp_error %s\\n' % (cmds[0], cmds[1], sig)\n                    continue\n                for cmd in cmds:\n                    ret += '        ' + cmd_template % (cmd, sig)\n")]),
    dict(name='R10.6 joined commands handed to an extracted guard helper', rules=('R10.6',), edits=[
        (_E, _PR, "                ret += self._guard('; '.join(ru.as_list(entry.get(str(rank_id)))), sig)\n"),
        (_E, _DEF, "    def _guard(self, cmd, sig):\n        return '        %s || rp_error %s\\n' % (cmd, sig)\n\n" + _DEF)]),
    dict(name='R10.6 per-rank commands emitted without the guard', rules=('R10.6',), edits=[
        (_E, _PR, "                for cmd in ru.as_list(entry.get(str(rank_id))):\n                    ret += '        %s\\n' % cmd\n")]),
]

SILENT += [
    dict(name='guard site: renamed locals, hoisted lookup, line through a local', edits=[
        (_E, _PR, "                rank_cmds = entry.get(str(rank_id))\n                for c in ru.as_list(rank_cmds):\n                    line = cmd_template % (c, sig)\n                    ret += '        ' + line\n")]),
    dict(name='guard site: per-rank lines as a comprehension', edits=[
        (_E, _PR, "                ret += ''.join(['        ' + cmd_template % (cmd, sig)\n                                for cmd in ru.as_list(entry.get(str(rank_id)))])\n")]),
    dict(name='guard site: extracted one-line helper used by both branches', edits=[
        (_E, _PR, "                for cmd in ru.as_list(entry.get(str(rank_id))):\n                    ret += '        ' + self._guard(cmd, sig)\n"),
        (_E, _GL, "            return ''.join([self._guard(x, sig) for x in entries]) + \\\n                   sync_ranks_cmd\n"),
        (_E, _DEF, "    def _guard(self, cmd, sig):\n        return '%s || rp_error %s\\n' % (cmd, sig)\n\n" + _DEF)]),
    dict(name='guard site: extracted helper builds the lines of one per-rank value', edits=[
        (_E, _PR, "                ret += self._rank_lines(entry.get(str(rank_id)), sig)\n"),
        (_E, _DEF, "    def _rank_lines(self, cmds, sig):\n        out = ''\n        for cmd in ru.as_list(cmds):\n            out += '        %s || rp_error %s\\n' % (cmd.strip(), sig)\n        return out\n\n" + _DEF)]),
    dict(name='guard site: global branch as a loop', edits=[
        (_E, _GL, "            for x in entries:\n                ret += cmd_template % (x, sig)\n            return ret + sync_ranks_cmd\n")]),
    dict(name='guard site: commands of one entry chained with && in front of the guard', edits=[
        (_E, _PR, "                cmds = ru.as_list(entry.get(str(rank_id)))\n                if cmds:\n                    ret += '        ' + cmd_template % (' && '.join(cmds), sig)\n")]),
    dict(name='guard site: guard line as f-string', edits=[
        (_E, _PR, "                for cmd in ru.as_list(entry.get(str(rank_id))):\n                    ret += f'        {cmd} || rp_error {sig}\\n'\n")]),
    dict(name='guard site: guard line with str.format', edits=[
        (_E, _PR, "                for cmd in ru.as_list(entry.get(str(rank_id))):\n                    ret += '        {} || rp_error {}\\n'.format(cmd, sig)\n")]),
    dict(name='guard site: lines collected in a list and joined', edits=[
        (_E, _PR, "                lines = []\n                for cmd in ru.as_list(entry.get(str(rank_id))):\n                    lines.append('        ' + cmd_template % (cmd, sig))\n                ret += ''.join(lines)\n")]),
    dict(name='guard site: early continue on an empty per-rank value', edits=[
        (_E, _PR, "                cmds = entry.get(str(rank_id))\n                if not cmds:\n                    continue\n                for cmd in ru.as_list(cmds):\n                    ret += '        ' + cmd_template % (cmd, sig)\n")]),
    dict(name='guard site: enumerate over the per-rank commands', edits=[
        (_E, _PR, "                cmds = ru.as_list(entry.get(str(rank_id)))\n                for i, cmd in enumerate(cmds):\n                    ret += '        ' + cmd_template % (cmd, sig)\n")]),
    dict(name='guard site: while / pop over a copy of the per-rank commands', edits=[
        (_E, _PR, "                cmds = list(ru.as_list(entry.get(str(rank_id))))\n                while cmds:\n                    cmd = cmds.pop(0)\n                    ret += '        ' + cmd_template % (cmd, sig)\n")]),
    dict(name='guard site: launch commands as a comprehension over td[sig]', edits=[
        (_E, _PL, "        ret += ''.join(['%s || rp_error %s\\n' % (c, sig)\n                        for c in ru.as_list(td[sig])])\n")]),
    dict(name='guard site: command list read with td.get(sig)', edits=[
        (_E, "        entries         = ru.as_list(td[sig])\n", "        entries         = ru.as_list(td.get(sig))\n")]),
]


# ---- R10.7 (exit codes) and the recognisers of R10.3 / R10.5 on the
# extract-method form of the rank loop (seeds C10-e, C10-r5)
_X    = "        ret += '    exit 1\\n'\n"
_FN   = "        ret  = '\\nrp_error() {\\n'\n        ret += '    echo \"$1 failed\" 1>&2\\n'\n        ret += '    exit 1\\n'\n        ret += '}\\n'\n"
_EX_E = "        tmp += 'exit $RP_RET\\n'\n\n        fh = os.open"
_EX_L = "            tmp += 'exit $RP_RET\\n'\n\n            tmp += self._separator"
_DEFF = "    def _get_rp_funcs(self):\n"
_RANK = "            for entry in entries:\n\n                if isinstance(entry, str):\n                    entry = {str(rank_id): entry}\n\n" + _PR


def _seeded(name):
    import os
    here = os.path.dirname(os.path.dirname(os.path.dirname(
        os.path.abspath(__file__))))
    return os.path.join(here, 'seeded', name, 'patch.diff')


_R5 = edits_from_patch(_seeded('C10-r5')) or []

MUTATIONS += [
    dict(name='R10.7 rp_error exits with ${RP_RET:-1} (seed C10-e)', rules=('R10.7',), edits=[
        (_E, _X, "        ret += '    exit ${RP_RET:-1}\\n'\n")]),
    dict(name='R10.7 rp_error exits with $RP_RET', rules=('R10.7',), edits=[
        (_E, _X, "        ret += '    exit $RP_RET\\n'\n")]),
    dict(name='R10.7 rp_error as a one-liner which exits with the quoted variable', rules=('R10.7',), edits=[
        (_E, _FN, "        ret  = '\\nrp_error() { echo \"$1 failed\" 1>&2; exit \"${RP_RET:-1}\"; }\\n'\n")]),
    dict(name='R10.7 rp_error exits with $? of its echo', rules=('R10.7',), edits=[
        (_E, _X, "        ret += '    exit $?\\n'\n")]),
    dict(name='R10.7 rp_error ends with a bare exit after the echo', rules=('R10.7',), edits=[
        (_E, _X, "        ret += '    exit\\n'\n")]),
    dict(name='R10.7 rp_error returns instead of exiting', rules=('R10.7',), edits=[
        (_E, _X, "        ret += '    return 1\\n'\n")]),
    dict(name='R10.7 rp_error only reports', rules=('R10.7',), edits=[
        (_E, _X, "")]),
    dict(name='R10.7 exec script ends with exit 0', rules=('R10.7',), edits=[
        (_E, _EX_E, "        tmp += 'exit 0\\n'\n\n        fh = os.open")]),
    dict(name='R10.7 launch script ends with exit $? of the profile line', rules=('R10.7',), edits=[
        (_E, _EX_L, "            tmp += 'exit $?\\n'\n\n            tmp += self._separator")]),
    dict(name='R10.7 launch script does not define rp_error', rules=('R10.7',), edits=[
        (_E, "            tmp += self._get_rp_funcs()\n", "")]),
    dict(name='R10.7 launch script defines rp_error after the pre_launch section', rules=('R10.7',), edits=[
        (_E, "            tmp += self._get_rp_funcs()\n", ""),
        (_E, "            tmp += self._get_prep_launch(task, sig='pre_launch')\n", "            tmp += self._get_prep_launch(task, sig='pre_launch')\n            tmp += self._get_rp_funcs()\n")]),
    dict(name='R10.7 RP_RET reset after it captured the exit code of the executable', rules=('R10.7',), edits=[
        (_E, "        ret += 'RP_RET=$?\\n'\n\n        return ret", "        ret += 'RP_RET=$?\\n'\n        ret += 'RP_RET=0\\n'\n\n        return ret")]),
]

MUTATIONS += [
    dict(name='R10.6 two commands joined with `; ` by a literal join in front of one guard', rules=('R10.6',), edits=[
        (_E, _PR, "                cmds = ru.as_list(entry.get(str(rank_id)))\n                if len(cmds) == 2:\n                    ret += '        ' + '; '.join([cmds[0], cmds[1]]) + ' || rp_error %s\\n' % sig\n                    continue\n                for cmd in cmds:\n                    ret += '        ' + cmd_template % (cmd, sig)\n")]),
    dict(name='R10.6 per-rank commands joined with `; ` and concatenated with the guard', rules=('R10.6',), edits=[
        (_E, _PR, "                cmds = ru.as_list(entry.get(str(rank_id)))\n                if cmds:\n                    ret += '        ' + '; '.join(cmds) + ' || rp_error %s\\n' % sig\n")]),
]

# (mutants of the extract-method form: the refactoring C10-r5 plus one edit)
MUTATIONS += [] if not _R5 else [
    dict(name='R10.3 extracted rank helper (C10-r5 form) looks every rank up under one key', rules=('R10.3',), edits=_R5 + [
        (_E, "            cmds.extend(ru.as_list(entry.get(rank_key)))", "            cmds.extend(ru.as_list(entry.get('0')))")]),
    dict(name='R10.5 extracted rank helper (C10-r5 form) is handed the int rank index', rules=('R10.5',), edits=_R5 + [
        (_E, "self._get_rank_cmds(entries, str(rank_id))", "self._get_rank_cmds(entries, rank_id)")]),
    dict(name='R10.6 extracted rank helper (C10-r5 form): commands of a rank joined in front of one guard', rules=('R10.6',), edits=_R5 + [
        (_E, "            for cmd in self._get_rank_cmds(entries, str(rank_id)):\n                lines.append('        ' + self._guard_cmd(cmd, sig))\n",
             "            lines.append('        ' + self._guard_cmd('; '.join(self._get_rank_cmds(entries, str(rank_id))), sig))\n")]),
]

SILENT += [
    dict(name='exit site: rp_error as one string constant', edits=[
        (_E, _FN, "        ret  = '\\nrp_error() {\\n    echo \"$1 failed\" 1>&2\\n    exit 1\\n}\\n'\n")]),
    dict(name='exit site: rp_error as a one-line shell function', edits=[
        (_E, _FN, "        ret  = '\\nrp_error() { echo \"$1 failed\" 1>&2; exit 1; }\\n'\n")]),
    dict(name='exit site: lines of rp_error in a list literal joined by newline', edits=[
        (_E, _FN, "        ret  = '\\n'.join(['', 'rp_error() {', '    echo \"$1 failed\" 1>&2', '    exit 1', '}', ''])\n")]),
    dict(name='exit site: lines of rp_error appended to a list, one join', edits=[
        (_E, _FN, "        lines = ['', 'rp_error() {']\n        lines.append('    echo \"$1 failed\" 1>&2')\n        lines.append('    exit 1')\n        lines += ['}', '']\n        ret = '\\n'.join(lines)\n")]),
    dict(name='exit site: exit code through a local and %d', edits=[
        (_E, _X, "        code = 1\n        ret += '    exit %d\\n' % code\n")]),
    dict(name='exit site: text of rp_error from an extracted helper', edits=[
        (_E, _FN, "        ret  = self._rp_error_func()\n"),
        (_E, _DEFF, "    def _rp_error_func(self):\n        return '\\nrp_error() {\\n    echo \"$1 failed\" 1>&2\\n    exit 1\\n}\\n'\n\n" + _DEFF)]),
    dict(name='exit site: a second shell helper defined only when profiling', edits=[
        (_E, "        ret += '}\\n'\n\n        return ret\n\n\n    # --------------------------------------------------------------------------\n    #\n    def _get_prof",
             "        ret += '}\\n'\n        if self._prof.enabled:\n            ret += '\\nrp_note() {\\n    echo \"$1\"\\n    return 0\\n}\\n'\n\n        return ret\n\n\n    # --------------------------------------------------------------------------\n    #\n    def _get_prof")]),
    dict(name='exit site: scripts end with the quoted / braced variable', edits=[
        (_E, _EX_E, "        tmp += 'exit \"$RP_RET\"\\n'\n\n        fh = os.open"),
        (_E, _EX_L, "            tmp += 'exit ${RP_RET}\\n'\n\n            tmp += self._separator")]),
    dict(name='rank site: commands of a rank collected by a helper which is handed str(rank_id)', edits=[
        (_E, _RANK, "            for cmd in self._rank_cmds(entries, str(rank_id)):\n                ret += '        ' + cmd_template % (cmd, sig)\n"),
        (_E, _DEF, "    def _rank_cmds(self, entries, key):\n        out = []\n        for entry in entries:\n            if isinstance(entry, str):\n                out.append(entry)\n            else:\n                out.extend(ru.as_list(entry.get(key)))\n        return out\n\n" + _DEF)]),
    dict(name='guard site: guard line as pieces joined by the empty string', edits=[
        (_E, _PR, "                for cmd in ru.as_list(entry.get(str(rank_id))):\n                    ret += ''.join(['        ', cmd, ' || rp_error ', sig, '\\n'])\n")]),
    dict(name='guard site: guard line as words joined by a blank', edits=[
        (_E, _PR, "                for cmd in ru.as_list(entry.get(str(rank_id))):\n                    ret += ' '.join(['       ', cmd, '|| rp_error', sig]) + '\\n'\n")]),
    dict(name='guard site: two commands chained with && by a literal join', edits=[
        (_E, _PR, "                cmds = ru.as_list(entry.get(str(rank_id)))\n                if len(cmds) == 2:\n                    ret += '        ' + ' && '.join([cmds[0], cmds[1]]) + ' || rp_error %s\\n' % sig\n                    continue\n                for cmd in cmds:\n                    ret += '        ' + cmd_template % (cmd, sig)\n")]),
    dict(name='rank site: indent built by a second range() loop', edits=[
        (_E, "        ret += 'case \"$RP_RANK\" in\\n'\n", "        pad  = ''.join([' ' for _ in range(8)])\n        ret += 'case \"$RP_RANK\" in\\n'\n"),
        (_E, "            ret += '        ;;\\n'\n", "            ret += pad + ';;\\n'\n")]),
]


# ---- round 4 (C10-g1, g3, g4, g5): completeness, switch guard, agreement
_J   = "            return ' '.join([ru.sh_quote(arg) for arg in args])"
_ENV = "        if td['environment']:\n            ret += '\\n# task env settings\\n'\n            for key, val in td['environment'].items():\n                ret += 'export %s=\"%s\"\\n' % (key, val)\n"
_SW  = "        switch_per_rank = any([isinstance(x, dict) for x in entries])\n"
_R7  = edits_from_patch(_seeded('C10-r7')) or []

MUTATIONS += [
    dict(name='R10.8 empty arguments filtered out by the comprehension (seed C10-g1)', rules=('R10.8',), edits=[
        (_B, _J, "            return ' '.join([ru.sh_quote(arg) for arg in args if arg])")]),
    dict(name='R10.8 empty arguments skipped by continue in a loop', rules=('R10.8',), edits=[
        (_B, _J, "            words = []\n            for arg in args:\n                if not arg:\n                    continue\n                words.append(ru.sh_quote(arg))\n            return ' '.join(words)")]),
    dict(name='R10.8 arguments passed through filter(None, ..)', rules=('R10.8',), edits=[
        (_B, _J, "            return ' '.join(ru.sh_quote(arg) for arg in filter(None, args))")]),
    dict(name='R10.8 blank arguments dropped in get_exec', rules=('R10.8',), edits=[
        (_B, "        task_args    = td['arguments']\n", "        task_args    = [a for a in td['arguments'] if a.strip()]\n")]),
    dict(name='R10.8 environment variables with an empty value are not exported', rules=('R10.8',), edits=[
        (_E, "                ret += 'export %s=\"%s\"\\n' % (key, val)\n", "                if val:\n                    ret += 'export %s=\"%s\"\\n' % (key, val)\n")]),
    dict(name='R10.8 environment block is the elif of the named_env block (seed C10-g3)', rules=('R10.8',), edits=[
        (_E, "        if td['environment']:\n            ret += '\\n# task env", "        elif td['environment']:\n            ret += '\\n# task env")]),
    dict(name='R10.8 environment block only without named_env', rules=('R10.8',), edits=[
        (_E, "        if td['environment']:\n            ret += '\\n# task env", "        if td['environment'] and not td['named_env']:\n            ret += '\\n# task env")]),
    dict(name='R10.8 early return after the named_env block', rules=('R10.8',), edits=[
        (_E, "        # also add any env vars requested in the task description\n", "        if td['named_env']:\n            return ret\n\n")]),
    dict(name='R10.9 per-rank switch only if all entries are dicts (seed C10-g4)', rules=('R10.9',), edits=[
        (_E, _SW, "        switch_per_rank = all([isinstance(x, dict) for x in entries])\n")]),
    dict(name='R10.9 per-rank switch decided by the first entry', rules=('R10.9',), edits=[
        (_E, _SW, "        switch_per_rank = isinstance(entries[0], dict)\n")]),
    dict(name='R10.9 per-rank switch only if no entry is a string', rules=('R10.9',), edits=[
        (_E, _SW, "        switch_per_rank = not any([isinstance(x, str) for x in entries])\n")]),
    dict(name='R10.9 per-rank switch if the dict count equals the length', rules=('R10.9',), edits=[
        (_E, _SW, "        switch_per_rank = len([x for x in entries if isinstance(x, dict)]) == len(entries)\n")]),
    dict(name='R10.9 flag loop clears the switch on the first plain entry', rules=('R10.9',), edits=[
        (_E, _SW, "        switch_per_rank = True\n        for x in entries:\n            if not isinstance(x, dict):\n                switch_per_rank = False\n")]),
    dict(name='R10.3 stderr form decided by the stdout name (seed C10-g5)', rules=('R10.3',), edits=[
        (_P, "        if stderr_file[0] != '/':", "        if stdout_file[0] != '/':")]),
    dict(name='R10.3 stdout form decided by the stderr name', rules=('R10.3',), edits=[
        (_P, "        if stdout_file[0] != '/':", "        if stderr_file[0] != '/':")]),
]

MUTATIONS += [] if not _R5 or not _R7 else [
    dict(name='R10.9 C10-r5 form: switch unless all entries are dicts', rules=('R10.9',), edits=_R5 + [
        (_E, "if not any(isinstance(entry, dict) for entry in entries):", "if not all(isinstance(entry, dict) for entry in entries):")]),
    dict(name='R10.9 C10-r7 form (for / else): loop breaks on a plain entry', rules=('R10.9',), edits=_R7 + [
        (_E, "            if isinstance(entry, dict):\n                break", "            if isinstance(entry, str):\n                break")]),
    dict(name='R10.6 C10-r7 form: nested line helper gets the joined commands', rules=('R10.6',), edits=_R7 + [
        (_E, "                for cmd in cmds:\n                    lines.append(_cmd_line(cmd, indent='        '))\n", "                if cmds:\n                    lines.append(_cmd_line('; '.join(cmds), indent='        '))\n")]),
]

SILENT += [
    dict(name='arguments site: None test in the comprehension', edits=[
        (_B, _J, "            return ' '.join([ru.sh_quote(arg) for arg in args if arg is not None])")]),
    dict(name='arguments site: loop which renders the empty argument by hand in the other arm', edits=[
        (_B, _J, "            words = []\n            for arg in args:\n                if arg == '':\n                    words.append(\"''\")\n                else:\n                    words.append(ru.sh_quote(arg))\n            return ' '.join(words)")]),
    dict(name='environment site: early return when there is no environment', edits=[
        (_E, _ENV, "        env = td['environment'] or {}\n        if not env:\n            return ret\n\n        ret += '\\n# task env settings\\n'\n        for key, val in env.items():\n            ret += 'export %s=\"%s\"\\n' % (key, val)\n")]),
    dict(name='environment site: hoisted flag, lookup by key', edits=[
        (_E, _ENV, "        has_env = bool(td['environment'])\n        if has_env:\n            ret += '\\n# task env settings\\n'\n            for key in td['environment']:\n                ret += 'export %s=\"%s\"\\n' % (key, td['environment'][key])\n")]),
    dict(name='environment site: export lines as a comprehension over the sorted items', edits=[
        (_E, _ENV, "        if td['environment']:\n            ret += '\\n# task env settings\\n'\n            ret += ''.join(['export %s=\"%s\"\\n' % (k, v)\n                            for k, v in sorted(td['environment'].items())])\n")]),
    dict(name='switch site: not all entries are strings', edits=[
        (_E, _SW, "        switch_per_rank = not all(isinstance(x, str) for x in entries)\n")]),
    dict(name='switch site: truth of the list of dict entries', edits=[
        (_E, _SW, "        switch_per_rank = bool([x for x in entries if isinstance(x, dict)])\n")]),
    dict(name='switch site: count of dict entries through a local', edits=[
        (_E, _SW, "        n_dicts = len([x for x in entries if isinstance(x, dict)])\n        switch_per_rank = n_dicts > 0\n")]),
    dict(name='switch site: type(x) is dict', edits=[
        (_E, _SW, "        switch_per_rank = any(type(x) is dict for x in entries)\n")]),
    dict(name='switch site: flag set by a loop with break', edits=[
        (_E, _SW, "        switch_per_rank = False\n        for x in entries:\n            if isinstance(x, dict):\n                switch_per_rank = True\n                break\n")]),
    dict(name='std site: the absolute case first (tests swapped around)', edits=[
        (_P, "        if stderr_file[0] != '/':\n            task['stderr_file']       = '%s/%s' % (sbox, stderr_file)\n            task['stderr_file_short'] = '$RP_TASK_SANDBOX/%s' % stderr_file\n        else:\n            task['stderr_file']       = stderr_file\n            task['stderr_file_short'] = stderr_file\n",
             "        if stderr_file.startswith('/'):\n            task['stderr_file']       = stderr_file\n            task['stderr_file_short'] = stderr_file\n        else:\n            task['stderr_file']       = '%s/%s' % (sbox, stderr_file)\n            task['stderr_file_short'] = '$RP_TASK_SANDBOX/%s' % stderr_file\n")]),
    dict(name='std site: hoisted tests for both streams', edits=[
        (_P, "        if stdout_file[0] != '/':", "        out_rel = stdout_file[0] != '/'\n        err_rel = stderr_file[0] != '/'\n        if out_rel:"),
        (_P, "        if stderr_file[0] != '/':", "        if err_rel:")]),
]

SILENT += _corpus()


# ---- round 5 (C10-h4, C10-r9): the rank variable; element handed to a nested
# helper of the rank loop
_F   = 'agent/launch_method/fork.py'
_S   = 'agent/launch_method/ssh.py'
_SR  = 'agent/launch_method/srun.py'
_RC  = "        return 'export RP_RANK=0\\n'\n"
_CS  = "        ret += 'case \"$RP_RANK\" in\\n'\n"
_CK  = "            if 'export RP_RANK=' not in ret:\n"
_R9  = edits_from_patch(_seeded('C10-r9')) or []

MUTATIONS += [
    dict(name='R10.10 Fork exports RP_RANKS instead of RP_RANK (seed C10-h4)', rules=('R10.10',), edits=[
        (_F, _RC, "        return 'export RP_RANKS=0\\n'\n")]),
    dict(name='R10.10 SSH rank command sets a lower case variable', rules=('R10.10',), edits=[
        (_S, _RC, "        return 'export rp_rank=0\\n'\n")]),
    dict(name='R10.10 Fork rank command through a format with the wrong name', rules=('R10.10',), edits=[
        (_F, _RC, "        name = 'RP_RANK_ID'\n        return 'export %s=%d\\n' % (name, 0)\n")]),
    dict(name='R10.10 Srun exports RP_RANKID on all three lines', rules=('R10.10',), edits=[
        (_SR, "        ret  = 'test -z \"$SLURM_PROCID\" || export RP_RANK=$SLURM_PROCID\\n'\n        ret += 'test -z \"$MPI_RANK\"     || export RP_RANK=$MPI_RANK\\n'\n        ret += 'test -z \"$PMIX_RANK\"    || export RP_RANK=$PMIX_RANK\\n'\n",
              "        ret  = 'test -z \"$SLURM_PROCID\" || export RP_RANKID=$SLURM_PROCID\\n'\n        ret += 'test -z \"$MPI_RANK\"     || export RP_RANKID=$MPI_RANK\\n'\n        ret += 'test -z \"$PMIX_RANK\"    || export RP_RANKID=$PMIX_RANK\\n'\n")]),
    dict(name='R10.10 per-rank switch reads $RP_RANKS', rules=('R10.10',), edits=[
        (_E, _CS, "        ret += 'case \"$RP_RANKS\" in\\n'\n")]),
    dict(name='R10.10 _get_rank_ids insists on the export of RP_RANKS', rules=('R10.10',), edits=[
        (_E, _CK, "            if 'export RP_RANKS=' not in ret:\n")]),
]

MUTATIONS += [] if not _R9 else [
    dict(name='R10.3 C10-r9 form: nested helper looks every rank up under one key', rules=('R10.3',), edits=_R9 + [
        (_E, "            return ru.as_list(entry.get(rank_key))", "            return ru.as_list(entry.get('0'))")]),
    dict(name='R10.5 C10-r9 form: cached rank key is the int index', rules=('R10.5',), edits=_R9 + [
        (_E, "            rank_key = str(rank_id)\n", "            rank_key = rank_id\n")]),
    dict(name='R10.9 C10-r9 form (for / else): loop breaks on a plain entry', rules=('R10.9',), edits=_R9 + [
        (_E, "            if isinstance(entry, dict):\n                # at least one per-rank entry: switch per rank below\n                break", "            if isinstance(entry, str):\n                break")]),
    dict(name='R10.6 C10-r9 form: nested line helper gets the joined commands', rules=('R10.6',), edits=_R9 + [
        (_E, "                for cmd in _rank_cmds(entry, rank_key):\n                    ret += _fmt(cmd, indent='        ')\n", "                ret += _fmt('; '.join(_rank_cmds(entry, rank_key)), indent='        ')\n")]),
    dict(name='R10.10 C10-r9 form: switch header reads $RP_RANK_ID', rules=('R10.10',), edits=_R9 + [
        (_E, "        ret = 'case \"$RP_RANK\" in\\n'\n", "        ret = 'case \"$RP_RANK_ID\" in\\n'\n")]),
]

SILENT += [
    dict(name='rank variable site: Fork rank command through a format with the name in a local', edits=[
        (_F, _RC, "        name = 'RP_RANK'\n        return 'export %s=%d\\n' % (name, 0)\n")]),
    dict(name='rank variable site: SSH rank command from an extracted helper, text in a local', edits=[
        (_S, "    def get_rank_cmd(self):\n\n" + _RC, "    def get_rank_cmd(self):\n\n        return self._rank_export(0)\n\n    def _rank_export(self, rank):\n        cmd = 'export RP_RANK=%d' % rank\n        return cmd + '\\n'\n")]),
    dict(name='rank variable site: switch header with the braced variable', edits=[
        (_E, _CS, "        ret += 'case \"${RP_RANK}\" in\\n'\n")]),
    dict(name='rank variable site: switch header through a format', edits=[
        (_E, _CS, "        ret += 'case \"$%s\" in\\n' % 'RP_RANK'\n")]),
    dict(name='rank variable site: required export hoisted into a local, positive test', edits=[
        (_E, _CK + "                raise RuntimeError('launch method %s does not export RP_RANK'\n                                   % launcher.name)\n",
             "            needle = 'export RP_RANK='\n            if needle in ret:\n                pass\n            else:\n                raise RuntimeError('launch method %s does not export RP_RANK'\n                                   % launcher.name)\n")]),
    dict(name='rank variable site: Srun rank command as a list of lines joined', edits=[
        (_SR, "        ret  = 'test -z \"$SLURM_PROCID\" || export RP_RANK=$SLURM_PROCID\\n'\n        ret += 'test -z \"$MPI_RANK\"     || export RP_RANK=$MPI_RANK\\n'\n        ret += 'test -z \"$PMIX_RANK\"    || export RP_RANK=$PMIX_RANK\\n'\n",
              "        lines = ['test -z \"$%s\" || export RP_RANK=$%s' % (v, v)\n                 for v in ('SLURM_PROCID', 'MPI_RANK', 'PMIX_RANK')]\n        ret = '\\n'.join(lines) + '\\n'\n")]),
]


# ---- round 6 (C10-r12, C10-i6): stdout / stderr names set in a loop over a
# literal table through an extracted helper; define before use among the
# export lines of _get_rp_env
_R12  = edits_from_patch(_seeded('C10-r12')) or []
_I6   = edits_from_patch(_seeded('C10-i6')) or []
_XP   = "        ret += 'export RP_PILOT_SANDBOX=\"%s\"\\n'     % self.psbox\n"
_XT   = "        ret += 'export RP_TASK_SANDBOX=\"%s\"\\n'      % sbox\n"
_XR   = "        ret += 'export RP_REGISTRY_ADDRESS=\"%s\"\\n'  % self.session.reg_addr\n"
_XID  = "        ret += 'export RP_TASK_ID=\"%s\"\\n'           % tid\n"
_TGT  = "        if self._prof.enabled:\n            ret += 'export RP_PROF_TGT=\"%s/%s.prof\"\\n' % (sbox, tid)\n        else:\n            ret += 'unset  RP_PROF_TGT\\n'\n\n"
_SBX  = "            sbox = '$RP_PILOT_SANDBOX%s' % sbox[len(self._pwd):]\n"
_OUT  = "        if stdout_file[0] != '/':\n            task['stdout_file']       = '%s/%s' % (sbox, stdout_file)\n            task['stdout_file_short'] = '$RP_TASK_SANDBOX/%s' % stdout_file\n        else:\n            task['stdout_file']       = stdout_file\n            task['stdout_file_short'] = stdout_file\n"
_ERR  = _OUT.replace('stdout', 'stderr')
_HT   = "    def _handle_task(self, task):\n"
_IOH  = "    def _io_names(self, sbox, fname):\n        if fname.startswith('/'):\n            return fname, fname\n        return '%s/%s' % (sbox, fname), '$RP_TASK_SANDBOX/%s' % fname\n\n"

MUTATIONS += [] if not _I6 else [
    dict(name='R10.11 RP_TASK_SANDBOX exported before RP_PILOT_SANDBOX (seed C10-i6)', rules=('R10.11',), edits=_I6),
]
MUTATIONS += [
    dict(name='R10.11 RP_PILOT_SANDBOX exported at the end of the RP environment', rules=('R10.11',), edits=[
        (_E, _XP, ""),
        (_E, _TGT + "        return ret\n", _TGT + _XP + "        return ret\n")]),
    dict(name='R10.11 profile target exported first', rules=('R10.11',), edits=[
        (_E, _TGT, ""),
        (_E, _XID, _TGT + _XID)]),
    dict(name='R10.11 pilot and task sandbox in one piece of text, task sandbox first', rules=('R10.11',), edits=[
        (_E, _XP + _XT, "        ret += 'export RP_TASK_SANDBOX=\"%s\"\\nexport RP_PILOT_SANDBOX=\"%s\"\\n' % (sbox, self.psbox)\n")]),
]
MUTATIONS += [] if not _R12 else [
    dict(name='R10.3 C10-r12 form: table row of stderr holds the stdout name', rules=('R10.3',), edits=_R12 + [
        (_P, "                           ('stderr_file', stderr_file)]:", "                           ('stderr_file', stdout_file)]:")]),
    dict(name='R10.3 C10-r12 form: helper is always handed the stdout name', rules=('R10.3',), edits=_R12 + [
        (_P, "            io_path = self._get_io_path(sbox, fname)", "            io_path = self._get_io_path(sbox, stdout_file)")]),
    dict(name='R10.3 C10-r12 form: helper tests the name of the other stream', rules=('R10.3',), edits=_R12 + [
        (_P, "        if fname[0] == '/':", "        if other[0] == '/':"),
        (_P, "    def _get_io_path(sbox, fname):", "    def _get_io_path(sbox, fname, other):"),
        (_P, "            io_path = self._get_io_path(sbox, fname)", "            io_path = self._get_io_path(sbox, fname, stdout_file)")]),
]
MUTATIONS += [
    dict(name='R10.3 extracted name helper is handed stdout for the stderr names', rules=('R10.3',), edits=[
        (_P, _OUT, "        task['stdout_file'], task['stdout_file_short'] = self._io_names(sbox, stdout_file)\n"),
        (_P, _ERR, "        task['stderr_file'], task['stderr_file_short'] = self._io_names(sbox, stdout_file)\n"),
        (_P, _HT, _IOH + _HT)]),
]

SILENT += [
    dict(name='export order site: task sandbox exported after the registry address', edits=[
        (_E, _XT, ""),
        (_E, _XR, _XR + _XT)]),
    dict(name='export order site: pilot sandbox exported first of all', edits=[
        (_E, _XP, ""),
        (_E, _XID, _XP + _XID)]),
    dict(name='export order site: braced reference through a hoisted prefix', edits=[
        (_E, _SBX, "            pre  = '${RP_PILOT_SANDBOX}'\n            sbox = pre + sbox[len(self._pwd):]\n")]),
    dict(name='export order site: pilot and task sandbox lines in one piece of text', edits=[
        (_E, _XP + _XT, "        ret += 'export RP_PILOT_SANDBOX=\"%s\"\\nexport RP_TASK_SANDBOX=\"%s\"\\n' % (self.psbox, sbox)\n")]),
    dict(name='export order site: sandbox lines as a joined list', edits=[
        (_E, _XP + _XT, "        ret += ''.join(['export RP_PILOT_SANDBOX=\"%s\"\\n' % self.psbox,\n                        'export RP_TASK_SANDBOX=\"%s\"\\n' % sbox])\n")]),
    dict(name='export order site: profile target set right after the task sandbox', edits=[
        (_E, _TGT, ""),
        (_E, _XT, _XT + _TGT)]),
    dict(name='std site: names from an extracted helper which returns a pair', edits=[
        (_P, _OUT, "        task['stdout_file'], task['stdout_file_short'] = self._io_names(sbox, stdout_file)\n"),
        (_P, _ERR, "        task['stderr_file'], task['stderr_file_short'] = self._io_names(sbox, stderr_file)\n"),
        (_P, _HT, _IOH + _HT)]),
    dict(name='std site: loop over a dict display, keys by format', edits=[
        (_P, _OUT, ""),
        (_P, _ERR, "        for stream, fname in {'stdout': stdout_file, 'stderr': stderr_file}.items():\n            full, brief = self._io_names(sbox, fname)\n            task['%s_file' % stream]       = full\n            task['%s_file_short' % stream] = brief\n"),
        (_P, _HT, _IOH + _HT)]),
    dict(name='std site: loop over a zip of two tuples, test inline', edits=[
        (_P, _OUT, ""),
        (_P, _ERR, "        for key, fname in zip(('stdout_file', 'stderr_file'),\n                              (stdout_file, stderr_file)):\n            rel = not fname.startswith('/')\n            task[key]            = '%s/%s' % (sbox, fname) if rel else fname\n            task[f'{key}_short'] = '$RP_TASK_SANDBOX/%s' % fname if rel else fname\n")]),
]
SILENT += [] if not _R12 else [
    dict(name='std site: C10-r12 form with the table in a local and keyword arguments', edits=_R12 + [
        (_P, "        for key, fname in [('stdout_file', stdout_file),\n                           ('stderr_file', stderr_file)]:\n            io_path = self._get_io_path(sbox, fname)\n",
             "        names = [('stdout_file', stdout_file),\n                 ('stderr_file', stderr_file)]\n        for key, fname in names:\n            io_path = self._get_io_path(fname=fname, sbox=sbox)\n")]),
]

# (one helper which computes the four names: its tests are read per component)
_IO4  = "    def _std_names(self, sbox, out, err):\n        if out[0] != '/':\n            o, o_short = '%s/%s' % (sbox, out), '$RP_TASK_SANDBOX/%s' % out\n        else:\n            o, o_short = out, out\n        if err[0] != '/':\n            e, e_short = '%s/%s' % (sbox, err), '$RP_TASK_SANDBOX/%s' % err\n        else:\n            e, e_short = err, err\n        return o, o_short, e, e_short\n\n"
_IO4C = "        task['stdout_file'], task['stdout_file_short'], \\\n            task['stderr_file'], task['stderr_file_short'] = \\\n            self._std_names(sbox, stdout_file, stderr_file)\n"

MUTATIONS += [
    dict(name='R10.3 one helper computes the four names: stderr form decided by the stdout name', rules=('R10.3',), edits=[
        (_P, _OUT, ""), (_P, _ERR, _IO4C),
        (_P, _HT, _IO4.replace("        if err[0] != '/':", "        if out[0] != '/':") + _HT)]),
    dict(name='R10.3 one helper computes the four names: short stderr name is the stdout name', rules=('R10.3',), edits=[
        (_P, _OUT, ""), (_P, _ERR, _IO4C),
        (_P, _HT, _IO4.replace("            e, e_short = err, err\n", "            e, e_short = err, out\n") + _HT)]),
]
SILENT += [
    dict(name='std site: one helper computes the four names', edits=[
        (_P, _OUT, ""), (_P, _ERR, _IO4C), (_P, _HT, _IO4 + _HT)]),
]


# ---- round 7 (C10-j2, C10-r13): the rank loop only reads the entries; a
# nested helper which reads the entries of the enclosing function
_J2   = edits_from_patch(_seeded('C10-j2')) or []
_R13  = edits_from_patch(_seeded('C10-r13')) or []
_EL   = "            for entry in entries:\n\n                if isinstance(entry, str):\n                    entry = {str(rank_id): entry}\n"
_ENT  = "        entries         = ru.as_list(td[sig])\n"
_LK   = "                for cmd in ru.as_list(entry.get(str(rank_id))):\n                    ret += '        ' + cmd_template % (cmd, sig)\n"
_R13H = "                if isinstance(entry, str):\n                    entry = {rank_key: entry}\n"

MUTATIONS += [] if not _J2 else [
    dict(name='R10.12 plain entry converted once and stored back into the list (seed C10-j2)', rules=('R10.12',), edits=_J2),
]
MUTATIONS += [
    dict(name='R10.12 converted entry stored into a copy of the list made before the rank loop', rules=('R10.12',), edits=[
        (_E, _ENT, "        entries         = list(ru.as_list(td[sig]))\n"),
        (_E, _EL, "            for idx, entry in enumerate(entries):\n\n                if isinstance(entry, str):\n                    entry = {str(rank_id): entry}\n                    entries[idx] = entry\n")]),
    dict(name='R10.12 plain entry removed from the list once it is rendered', rules=('R10.12',), edits=[
        (_E, _EL, "            for entry in list(entries):\n\n                if isinstance(entry, str):\n                    entries.remove(entry)\n                    entry = {str(rank_id): entry}\n")]),
    dict(name='R10.12 plain entry deleted from the list by index once it is rendered', rules=('R10.12',), edits=[
        (_E, _EL, "            for entry in list(entries):\n\n                if isinstance(entry, str):\n                    del entries[entries.index(entry)]\n                    entry = {str(rank_id): entry}\n")]),
    dict(name='R10.12 converted entries collected by list `+=` on the described list', rules=('R10.12',), edits=[
        (_E, _EL, "            for entry in list(entries):\n\n                if isinstance(entry, str):\n                    entry = {str(rank_id): entry}\n                    entries += [entry]\n")]),
]
MUTATIONS += [] if not _R13 else [
    dict(name='R10.12 C10-r13 form: nested helper stores the converted entry back', rules=('R10.12',), edits=_R13 + [
        (_E, "            for entry in entries:\n" + _R13H, "            for i, entry in enumerate(entries):\n                if isinstance(entry, str):\n                    entries[i] = entry = {rank_key: entry}\n")]),
    dict(name='R10.6 C10-r13 form: commands of the nested helper joined in front of one guard', rules=('R10.6',), edits=_R13 + [
        (_E, "            lines.extend(['        ' + template % (cmd, sig)\n                          for cmd in _rank_cmds(str(rank_id))])\n",
             "            lines.append('        ' + template % ('; '.join(_rank_cmds(str(rank_id))), sig))\n")]),
]
SILENT += [
    dict(name='entries site: every entry copied into a fresh dict for this rank, then changed', edits=[
        (_E, _EL, "            for entry in entries:\n\n                if isinstance(entry, str):\n                    entry = {str(rank_id): entry}\n                else:\n                    entry = dict(entry)\n                entry.pop('no such rank', None)\n")]),
    dict(name='entries site: enumerate over the entries, nothing stored', edits=[
        (_E, _EL, "            for idx, entry in enumerate(entries):\n\n                if isinstance(entry, str):\n                    entry = {str(rank_id): entry}\n")]),
    dict(name='entries site: converted entry stored into a copy made for this rank', edits=[
        (_E, _EL, "            mine = list(entries)\n            for idx, entry in enumerate(mine):\n\n                if isinstance(entry, str):\n                    mine[idx] = entry = {str(rank_id): entry}\n")]),
    dict(name='entries site: commands of a rank collected in a list first', edits=[
        (_E, _EL + "\n" + _LK, "            cmds = []\n" + _EL + "\n                cmds.extend(ru.as_list(entry.get(str(rank_id))))\n\n            for cmd in cmds:\n                ret += '        ' + cmd_template % (cmd, sig)\n")]),
    dict(name='entries site: per-rank form of all entries built once, in a new list', edits=[
        (_E, "        ret += 'case \"$RP_RANK\" in\\n'\n", "        ranked = [e if isinstance(e, dict) else\n                  {str(r): e for r in range(n_ranks)} for e in entries]\n        ret += 'case \"$RP_RANK\" in\\n'\n"),
        (_E, "            for entry in entries:\n\n                if isinstance(entry, str):\n", "            for entry in ranked:\n\n                if isinstance(entry, str):\n")]),
    dict(name='entries site: commands of a rank consumed from the list under the key of that rank', edits=[
        (_E, _EL + "\n" + _LK, _EL + "\n                cmds = ru.as_list(entry.get(str(rank_id)))\n                while cmds:\n                    cmd = cmds.pop(0)\n                    ret += '        ' + cmd_template % (cmd, sig)\n")]),
    dict(name='entries site: value under the key of the rank normalised to a list in place', edits=[
        (_E, _EL + "\n", _EL + "                key = str(rank_id)\n                if key in entry:\n                    entry[key] = ru.as_list(entry[key])\n\n")]),
]
SILENT += [] if not _R13 else [
    dict(name='entries site: C10-r13 form, helper takes the entries as argument and copies dict entries', edits=_R13 + [
        (_E, "        def _rank_cmds(rank_key):\n", "        def _rank_cmds(rank_key, entries):\n"),
        (_E, "                    entry = {rank_key: entry}\n", "                    entry = {rank_key: entry}\n                else:\n                    entry = dict(entry)\n"),
        (_E, "for cmd in _rank_cmds(str(rank_id))])", "for cmd in _rank_cmds(str(rank_id), entries)])")]),
]
_CASE = "        ret += 'case \"$RP_RANK\" in\\n'\n"
_RL   = "        for rank_id in range(n_ranks):\n"
_KEYS = "        rank_ids = set()\n        for entry in entries:\n            if isinstance(entry, dict):\n                rank_ids.update(int(x) for x in entry)\n\n"
MUTATIONS += [
    dict(name='R10.3 branches of the rank switch taken from the keys of the per-rank dicts (seed C10-k1)', rules=('R10.3',), edits=[
        (_E, _CASE + _RL, _KEYS + _CASE + "        for rank_id in sorted(rank_ids):\n\n            if rank_id >= n_ranks:\n                continue\n")]),
    dict(name='R10.3 branches of the rank switch taken from a set comprehension over the dict keys', rules=('R10.3',), edits=[
        (_E, _RL, "        for rank_id in sorted({int(k) for e in entries\n                               if isinstance(e, dict) for k in e}):\n")]),
]
SILENT += [
    dict(name='rank switch: keys named by the dicts collected for a log line, switch still over range(n_ranks)', edits=[
        (_E, _CASE + _RL, _KEYS.replace('int(x) for x in entry', 'int(rk) for rk in entry') + "        self._log.debug('ranks with own commands: %s', sorted(rank_ids))\n" + _CASE + _RL)]),
]
