"""Repository idioms, frozen as recognisers (DESIGN 2.4).  Each recogniser has a
one-line reason."""

import ast

from .model import (walk, dotted, call_name, kwarg, unparse, UNKNOWN,
                    root_name, AnalysisError, calls_in)
from .cfg import cfg_of

# `self.advance(things, state, publish=, push=)` is the only way a component
# hands a thing on (BaseComponent.advance); executors wrap it in advance_tasks
HANDON_NAMES = {'self.advance', 'self.advance_tasks', 'self._advance_tasks'}

# list / dict / set methods which mutate the receiver
MUTATING = {'append', 'extend', 'insert', 'pop', 'remove', 'clear', 'sort',
            'reverse', 'update', 'setdefault', 'popitem', 'add', 'discard',
            '__setitem__', '__delitem__'}


def is_handon(call):
    return isinstance(call, ast.Call) and call_name(call) in HANDON_NAMES


def handon_thing(call):
    return kwarg(call, 'things', 0) or kwarg(call, 'tasks', 0)


def handon_state_expr(call):
    return kwarg(call, 'state', 1)


def handon_state(prog, func, call, cls=None):
    e = handon_state_expr(call)
    if e is None:
        return None
    if isinstance(e, ast.Constant) and e.value is None:
        return None
    v = prog.fold(func.module, e, cls or func.cls)
    return v


def flag(call, name, default=None):
    """constant boolean keyword of a call (publish=, push=, fwd=)"""
    e = kwarg(call, name)
    if e is None:
        return default
    if isinstance(e, ast.Constant):
        return e.value
    return UNKNOWN


def is_publish(call, prog=None, func=None, channel=None):
    """self.publish(rpc.CHANNEL, payload)"""
    if not (isinstance(call, ast.Call) and call_name(call) == 'self.publish'):
        return False
    if channel is None:
        return True
    if not call.args:
        return False
    v = prog.fold(func.module, call.args[0], func.cls)
    return v == channel


def stmt_calls(node):
    """calls directly inside a cfg node's ast (not nested defs)"""
    if node.ast is None:
        return []
    if node.kind in ('for',):
        return calls_in(node.ast.iter)
    if node.kind in ('while', 'dispatch', 'handler'):
        return []
    if node.kind == 'with':
        out = []
        for i in node.ast.items:
            out += calls_in(i.context_expr)
        return out
    return calls_in(node.ast)


def stores(func_node, nested=False):
    """all writes through a path below func_node: yields (kind, target expr,
    ast node) with kind in {'assign', 'aug', 'del', 'mutate'}; plain name
    rebinding is not a write through a path"""
    for n in walk(func_node, nested=nested):
        if isinstance(n, ast.Assign):
            for t in n.targets:
                for e in _flat(t):
                    if isinstance(e, (ast.Subscript, ast.Attribute)):
                        yield ('assign', e, n)
        elif isinstance(n, ast.AugAssign):
            if isinstance(n.target, (ast.Subscript, ast.Attribute)):
                yield ('aug', n.target, n)
        elif isinstance(n, ast.AnnAssign) and n.value is not None:
            if isinstance(n.target, (ast.Subscript, ast.Attribute)):
                yield ('assign', n.target, n)
        elif isinstance(n, ast.Delete):
            for t in n.targets:
                if isinstance(t, (ast.Subscript, ast.Attribute)):
                    yield ('del', t, n)
        elif isinstance(n, ast.Call) and isinstance(n.func, ast.Attribute) \
                and n.func.attr in MUTATING:
            yield ('mutate', n.func.value, n)


def _flat(t):
    if isinstance(t, (ast.Tuple, ast.List)):
        for e in t.elts:
            yield from _flat(e)
    elif isinstance(t, ast.Starred):
        yield from _flat(t.value)
    else:
        yield t


def is_path(expr):
    """pure access path (names, attributes, subscripts - no calls)"""
    while isinstance(expr, (ast.Attribute, ast.Subscript, ast.Starred)):
        expr = expr.value
    return isinstance(expr, ast.Name)


def enclosing_stmt_node(cfg, ast_node):
    """cfg node whose statement contains ast_node"""
    for n in cfg.nodes:
        if n.ast is None:
            continue
        roots = [n.ast]
        if n.kind == 'for':
            roots = [n.ast.iter, n.ast.target]
        elif n.kind in ('while', 'dispatch', 'handler'):
            continue
        elif n.kind == 'with':
            roots = [i.context_expr for i in n.ast.items]
        for r in roots:
            for m in walk(r):
                if m is ast_node:
                    return n
    return None


def stmt_node_map(cfg):
    """id(ast sub node) -> cfg node, for all sub nodes of simple statements,
    tests, for-iters and with-items"""
    out = {}
    for n in cfg.nodes:
        if n.ast is None or n.kind in ('while', 'dispatch', 'handler'):
            continue
        if n.kind == 'for':
            roots = [n.ast.iter, n.ast.target]
        elif n.kind == 'with':
            roots = [i.context_expr for i in n.ast.items]
        else:
            roots = [n.ast]
        for r in roots:
            for m in walk(r):
                out.setdefault(id(m), n)
    return out


# ------------------------------------------------------------------------------
#
class Aliases:
    """Which local names may refer to (a part of) a root object, e.g. an
    element of self.nodes.  Reference propagation only: `x = <path below a
    rooted name>`, `for x in <path>`, `for i, x in enumerate(<path>, ..)`,
    resolved self-call parameters and returns.  Building a new dict/list from
    values of the object is *not* aliasing."""

    def __init__(self, prog, cls, methods, root_attr):
        """methods: {name: FuncInfo} resolved for concrete class cls;
        root_attr: 'self.nodes'"""
        self.prog = prog
        self.cls = cls
        self.methods = methods
        self.root = root_attr
        self.rooted = {m: set() for m in methods}      # method -> names
        self.ret = set()                               # methods returning it
        changed = True
        rounds = 0
        while changed and rounds < 10:
            changed = False
            rounds += 1
            for name, f in methods.items():
                if self._pass(name, f):
                    changed = True

    def is_rooted_expr(self, mname, e):
        """expression is a path (or enumerate/slice of a path) below the root
        or below a rooted name"""
        if isinstance(e, ast.Call):
            d = dotted(e.func)
            if d in ('enumerate', 'list', 'reversed', 'sorted', 'iter') \
                    and e.args:
                return self.is_rooted_expr(mname, e.args[0])
            if d.startswith('self.') and d[5:] in self.ret:
                return True
            # views / lookups on a rooted mapping yield parts of it
            if isinstance(e.func, ast.Attribute) and e.func.attr in (
                    'values', 'items', 'get', 'setdefault') and \
                    self.is_rooted_expr(mname, e.func.value):
                return True
            return False
        if isinstance(e, (ast.Tuple, ast.List)):
            return False
        if not is_path(e):
            return False
        d = dotted(_strip_subs(e))
        if d == self.root or d.startswith(self.root + '.') or \
                unparse(e).startswith(self.root + '['):
            return True
        r = root_name(e)
        return r in self.rooted[mname]

    def _bind(self, mname, target, value_rooted, enumerate_=False):
        ch = False
        if not value_rooted:
            return False
        if isinstance(target, ast.Name):
            if target.id not in self.rooted[mname]:
                self.rooted[mname].add(target.id)
                ch = True
        elif isinstance(target, (ast.Tuple, ast.List)):
            # for i, x in enumerate(..): the element is the last target
            elts = target.elts
            for t in (elts[1:] if enumerate_ and len(elts) > 1 else elts):
                ch |= self._bind(mname, t, True)
        return ch

    def _pass(self, mname, f):
        ch = False
        for n in walk(f.node, nested=True):
            if isinstance(n, ast.Assign):
                vr = self.is_rooted_expr(mname, n.value)
                for t in n.targets:
                    ch |= self._bind(mname, t, vr)
            elif isinstance(n, (ast.For, ast.comprehension)):
                en = isinstance(n.iter, ast.Call) and (
                    dotted(n.iter.func) == 'enumerate' or (
                        isinstance(n.iter.func, ast.Attribute) and
                        n.iter.func.attr == 'items'))
                ch |= self._bind(mname, n.target,
                                 self.is_rooted_expr(mname, n.iter), en)
            elif isinstance(n, (ast.Return, ast.Yield)) and n.value is not None:
                if self.is_rooted_expr(mname, n.value) and \
                        mname not in self.ret:
                    self.ret.add(mname)
                    ch = True
            elif isinstance(n, ast.Call):
                d = dotted(n.func)
                if d.startswith('self.') and d[5:] in self.methods:
                    g = self.methods[d[5:]]
                    params = [p for p in g.params if p != 'self']
                    for i, a in enumerate(n.args):
                        if i < len(params) and \
                                self.is_rooted_expr(mname, a):
                            if params[i] not in self.rooted[g.name]:
                                self.rooted[g.name].add(params[i])
                                ch = True
                    for k in n.keywords:
                        if k.arg in params and \
                                self.is_rooted_expr(mname, k.value):
                            if k.arg not in self.rooted[g.name]:
                                self.rooted[g.name].add(k.arg)
                                ch = True
        return ch


def _strip_subs(e):
    while isinstance(e, ast.Subscript):
        e = e.value
    return e


def class_methods(prog, cls, stop_at=None):
    """{name: FuncInfo} as seen by concrete class cls: first definition along
    the MRO, stopping after class `stop_at` (inclusive)"""
    out = {}
    for k in prog.mro(cls):
        for name, f in k.methods.items():
            out.setdefault(name, f)
        if stop_at is not None and k is stop_at:
            break
    return out


# ------------------------------------------------------------------------------
#
def iterated_container_mutations(func_info):
    """[(for ast, mutating ast node)]: a `for x in E` whose body removes from /
    adds to the very container expression E it iterates (E a plain access
    path, not a copy such as list(E) / E[:] / sorted(E)) and then continues to
    iterate: elements are skipped (remove) or visited again (insert)"""
    from .cfg import cfg_of
    out = []
    g = cfg_of(func_info)
    smap = stmt_node_map(g)
    for n in g.nodes:
        if n.kind != 'for' or not is_path(n.ast.iter):
            continue
        it = unparse(n.ast.iter)
        body = g.loop_body[n.id]
        for m in g.stmt_nodes():
            if m.id not in body or m.kind != 'stmt':
                continue
            hit = None
            for c in calls_in(m.ast):
                if isinstance(c.func, ast.Attribute) and c.func.attr in \
                        ('remove', 'pop', 'insert', 'append', 'clear',
                         'extend') and unparse(c.func.value) == it:
                    hit = c
            if isinstance(m.ast, ast.Delete):
                for t in m.ast.targets:
                    if isinstance(t, ast.Subscript) and \
                            unparse(t.value) == it:
                        hit = m.ast
            if hit is None:
                continue
            # does the loop go on iterating after the mutation?
            goes_on = False
            for e in g.succ[m.id]:
                if e.label == 'exc':
                    continue
                seen = g.reachable(e.dst, skip_nodes={n.id}) | {e.dst}
                if any(ed.dst == n.id and ed.back for x in seen | {m.id}
                       for ed in g.succ[x]):
                    goes_on = True
            if goes_on:
                out.append((n.ast, hit))
    return out
