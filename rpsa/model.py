"""Program model: modules, imports, classes (C3 MRO), functions, constant folding,
call resolution.  Built from the *current working tree* on every run; an
in-memory overlay {relative path -> source text} can replace files (used by the
self-test so that no scratch copy touches the disk).
"""

import ast
import os
import re
import json

PKG = 'src/radical/pilot'


class AnalysisError(Exception):
    """The analysis itself is broken (vanished anchor, unparsable file, rule
    that matches nothing).  Reported as ANALYSIS-ERROR, exit 2 - never as a
    property violation and never as a silent pass."""


class _Unknown:
    def __repr__(self):
        return 'UNKNOWN'

    def __bool__(self):
        return False


UNKNOWN = _Unknown()


# ------------------------------------------------------------------------------
#
def unparse(node):
    """normal form of a construct: ast.unparse drops comments, whitespace and
    line numbers, so keys built from it survive reformatting"""
    if node is None:
        return ''
    if isinstance(node, str):
        return node
    try:
        return ast.unparse(node)
    except Exception:                                    # pragma: no cover
        return '<%s>' % type(node).__name__


def short(node, n=100):
    s = ' '.join(unparse(node).split())
    return s if len(s) <= n else s[:n - 3] + '...'


def walk(node, nested=False):
    """ast.walk which does not descend into nested function/class/lambda
    bodies unless `nested` (the root itself is always entered)"""
    todo = [node]
    while todo:
        n = todo.pop()
        yield n
        for c in ast.iter_child_nodes(n):
            if not nested and isinstance(c, (ast.FunctionDef, ast.Lambda,
                                 ast.AsyncFunctionDef, ast.ClassDef)):
                continue
            todo.append(c)


def walk_body(stmts, nested=False):
    for s in stmts:
        if not nested and isinstance(s, (ast.FunctionDef, ast.ClassDef,
                                         ast.AsyncFunctionDef)):
            continue
        yield from walk(s, nested=nested)


def calls_in(node, nested=False):
    return [n for n in walk(node, nested=nested) if isinstance(n, ast.Call)]


def call_name(call):
    """dotted name of the callee expression, e.g. 'self.advance',
    'ru.as_list', 'slots.append'; '' if not a plain dotted name"""
    return dotted(call.func)


def dotted(expr):
    parts = []
    while isinstance(expr, ast.Attribute):
        parts.append(expr.attr)
        expr = expr.value
    if isinstance(expr, ast.Name):
        parts.append(expr.id)
        return '.'.join(reversed(parts))
    if isinstance(expr, ast.Call) and isinstance(expr.func, ast.Name) \
            and expr.func.id == 'super':
        parts.append('super()')
        return '.'.join(reversed(parts))
    return ''


def root_name(expr):
    """root variable of an access path x.a['k'][i] -> 'x' (None if the root is
    not a name)"""
    while isinstance(expr, (ast.Attribute, ast.Subscript, ast.Starred)):
        expr = expr.value
    if isinstance(expr, ast.Name):
        return expr.id
    return None


def path_parts(expr):
    """access path as a tuple: self._resources['cores'][i] ->
    ('self', '._resources', "['cores']", '[*]').  Constant string/int
    subscripts are kept, anything else becomes [*]."""
    parts = []
    while True:
        if isinstance(expr, ast.Attribute):
            parts.append('.' + expr.attr)
            expr = expr.value
        elif isinstance(expr, ast.Subscript):
            s = expr.slice
            if isinstance(s, ast.Constant):
                parts.append('[%r]' % (s.value,))
            else:
                parts.append('[*]')
            expr = expr.value
        elif isinstance(expr, ast.Name):
            parts.append(expr.id)
            break
        else:
            parts.append('<?>')
            break
    return tuple(reversed(parts))


def kwarg(call, name, pos=None):
    for k in call.keywords:
        if k.arg == name:
            return k.value
    if pos is not None and len(call.args) > pos:
        a = call.args[pos]
        if not isinstance(a, ast.Starred):
            return a
    return None


def names_in(node, ctx=None):
    out = set()
    for n in walk(node, nested=True):
        if isinstance(n, ast.Name):
            if ctx is None or isinstance(n.ctx, ctx):
                out.add(n.id)
    return out


def stores_in_target(t):
    """plain names bound by an assignment/for target"""
    out = []
    if isinstance(t, ast.Name):
        out.append(t.id)
    elif isinstance(t, (ast.Tuple, ast.List)):
        for e in t.elts:
            out += stores_in_target(e)
    elif isinstance(t, ast.Starred):
        out += stores_in_target(t.value)
    return out


# ------------------------------------------------------------------------------
#
class FuncInfo:

    def __init__(self, name, qual, module, cls, node, parent=None):
        self.name   = name
        self.qual   = qual
        self.module = module
        self.cls    = cls
        self.node   = node
        self.parent = parent
        self.nested = {}
        self._collect_nested(node)

    def _collect_nested(self, node):
        def rec(stmts):
            for s in stmts:
                if isinstance(s, (ast.FunctionDef, ast.AsyncFunctionDef)):
                    self.nested[s.name] = FuncInfo(
                        s.name, self.qual + '.' + s.name, self.module,
                        self.cls, s, parent=self)
                elif isinstance(s, ast.ClassDef):
                    continue
                else:
                    for f in ('body', 'orelse', 'finalbody'):
                        rec(getattr(s, f, []) or [])
                    for h in getattr(s, 'handlers', []) or []:
                        rec(h.body)
        rec(node.body)

    @property
    def params(self):
        a = self.node.args
        out = [x.arg for x in a.posonlyargs + a.args]
        if a.vararg:
            out.append(a.vararg.arg)
        out += [x.arg for x in a.kwonlyargs]
        if a.kwarg:
            out.append(a.kwarg.arg)
        return out

    @property
    def where(self):
        return '%s::%s' % (self.module.rel, self.qual)

    def loc(self, node=None):
        n = node if node is not None else self.node
        return '%s/%s:%d' % (PKG, self.module.rel, getattr(n, 'lineno', 0))

    def __repr__(self):
        return '<Func %s>' % self.where


class ClassInfo:

    def __init__(self, name, module, node):
        self.name    = name
        self.module  = module
        self.node    = node
        self.methods = {}
        self.consts  = {}       # class level simple assignments name -> expr
        for s in node.body:
            if isinstance(s, (ast.FunctionDef, ast.AsyncFunctionDef)):
                self.methods[s.name] = FuncInfo(s.name, name + '.' + s.name,
                                                module, self, s)
            elif isinstance(s, ast.Assign) and len(s.targets) == 1 \
                    and isinstance(s.targets[0], ast.Name):
                self.consts[s.targets[0].id] = s.value

    @property
    def where(self):
        return '%s::%s' % (self.module.rel, self.name)

    def __repr__(self):
        return '<Class %s>' % self.where


class Module:

    def __init__(self, prog, rel, src, tree=None):
        self.prog = prog
        self.rel  = rel
        self.src  = src
        if tree is not None:
            self.tree = tree
        else:
            try:
                self.tree = ast.parse(src, filename=rel)
            except SyntaxError as e:
                raise AnalysisError('cannot parse %s: %s' % (rel, e))
        # canonical spelling (idempotent; pre-built trees of the normalised
        # views contain freshly inlined code)
        from .canon import canonicalize
        self.tree = canonicalize(self.tree)
        self.classes = {}
        self.funcs   = {}
        self.assigns = {}     # name -> [value expr] (module top level)
        self.imports = {}     # alias -> ('mod', rel) | ('name', rel, name)
                              #        | ('ext', dotted)
        self.stars   = []     # rel modules star-imported
        self._scan()

    # package parts of this module: 'agent/scheduler/base.py' ->
    # ['agent', 'scheduler']; '__init__.py' of a dir counts as the dir
    def _pkg_parts(self):
        parts = self.rel.split('/')
        return parts[:-1]

    def _scan(self):
        def top(stmts):
            for s in stmts:
                if isinstance(s, ast.ClassDef):
                    self.classes[s.name] = ClassInfo(s.name, self, s)
                elif isinstance(s, (ast.FunctionDef, ast.AsyncFunctionDef)):
                    self.funcs[s.name] = FuncInfo(s.name, s.name, self, None, s)
                elif isinstance(s, ast.Assign):
                    for t in s.targets:
                        if isinstance(t, ast.Name):
                            self.assigns.setdefault(t.id, []).append(s.value)
                elif isinstance(s, ast.AnnAssign) and s.value is not None \
                        and isinstance(s.target, ast.Name):
                    self.assigns.setdefault(s.target.id, []).append(s.value)
                elif isinstance(s, (ast.Import, ast.ImportFrom)):
                    self._import(s)
                elif isinstance(s, (ast.If, ast.Try)):
                    top(s.body)
                    top(getattr(s, 'orelse', []))
                    for h in getattr(s, 'handlers', []):
                        top(h.body)
        top(self.tree.body)

    def _import(self, s, into=None):
        imports = self.imports if into is None else into
        if isinstance(s, ast.Import):
            for a in s.names:
                imports[a.asname or a.name.split('.')[0]] = ('ext', a.name)
            return
        if s.level == 0:
            for a in s.names:
                imports[a.asname or a.name] = ('ext', '%s.%s' % (s.module,
                                                                    a.name))
            return
        base = self._pkg_parts()
        up = s.level - 1
        if up > len(base):
            for a in s.names:
                imports[a.asname or a.name] = ('ext', a.name)
            return
        base = base[:len(base) - up] if up else base
        if s.module:
            base = base + s.module.split('.')
        for a in s.names:
            if a.name == '*':
                rel = self.prog._find_module(base)
                if rel and into is None:
                    self.stars.append(rel)
                continue
            sub = self.prog._find_module(base + [a.name])
            if sub:
                imports[a.asname or a.name] = ('mod', sub)
            else:
                rel = self.prog._find_module(base)
                if rel:
                    imports[a.asname or a.name] = ('name', rel, a.name)
                else:
                    imports[a.asname or a.name] = ('ext', '.'.join(base +
                                                                   [a.name]))

    def local_imports(self, func_node):
        """imports executed inside a function body (factory tables)"""
        out = {}
        for n in walk(func_node, nested=False):
            if isinstance(n, (ast.Import, ast.ImportFrom)):
                self._import(n, into=out)
        return out


# ------------------------------------------------------------------------------
#
class Program:

    def __init__(self, root='/repo', overlay=None, trees=None):
        self.root    = root
        self.pkgdir  = os.path.join(root, PKG)
        self.overlay = dict(overlay or {})
        self.trees   = trees or {}      # rel -> pre-built ast.Module
        self.sources = {}
        self.modules = {}
        self._mro_cache = {}
        self._load()

    # --------------------------------------------------------------------------
    def _load(self):
        if not os.path.isdir(self.pkgdir):
            raise AnalysisError('package directory %s missing' % self.pkgdir)
        for dp, dn, fn in os.walk(self.pkgdir):
            dn.sort()
            for f in sorted(fn):
                if not f.endswith('.py'):
                    continue
                full = os.path.join(dp, f)
                rel  = os.path.relpath(full, self.pkgdir)
                if rel in self.overlay:
                    continue
                with open(full, encoding='utf-8') as fh:
                    self.sources[rel] = fh.read()
        for rel, src in self.overlay.items():
            if rel.endswith('.py') and src is not None:
                self.sources[rel] = src
        # two passes: paths first (imports need to know what exists)
        self._rels = set(self.sources)
        for rel in sorted(self.sources):
            self.modules[rel] = Module(self, rel, self.sources[rel],
                                       tree=self.trees.get(rel))

    def read_text(self, rel):
        """non-python file below the package dir (configs, shell scripts)"""
        if rel in self.overlay and self.overlay[rel] is not None:
            return self.overlay[rel]
        with open(os.path.join(self.pkgdir, rel), encoding='utf-8') as fh:
            return fh.read()

    def list_files(self, subdir, suffix=''):
        d = os.path.join(self.pkgdir, subdir)
        out = set()
        if os.path.isdir(d):
            for f in os.listdir(d):
                if f.endswith(suffix):
                    out.add(subdir + '/' + f)
        for rel, src in self.overlay.items():
            if rel.startswith(subdir + '/') and rel.endswith(suffix):
                if src is None:
                    out.discard(rel)
                else:
                    out.add(rel)
        return sorted(out)

    def _find_module(self, parts):
        if not parts:
            return '__init__.py' if '__init__.py' in self._rels else None
        p = '/'.join(parts)
        if p + '.py' in self._rels:
            return p + '.py'
        if p + '/__init__.py' in self._rels:
            return p + '/__init__.py'
        return None

    # --------------------------------------------------------------------------
    def module(self, rel):
        m = self.modules.get(rel)
        if m is None:
            raise AnalysisError('anchor module %s not found' % rel)
        return m

    def lookup(self, module, name, _seen=None):
        """resolve a module-level name: ('class', ClassInfo) | ('func',
        FuncInfo) | ('mod', Module) | ('const', module, expr) | ('ext', dotted)
        | None"""
        _seen = _seen or set()
        key = (module.rel, name)
        if key in _seen:
            return None
        _seen.add(key)
        if name in module.classes:
            return ('class', module.classes[name])
        if name in module.funcs:
            return ('func', module.funcs[name])
        if name in module.assigns:
            return ('const', module, module.assigns[name])
        if name in module.imports:
            imp = module.imports[name]
            if imp[0] == 'mod':
                return ('mod', self.modules[imp[1]])
            if imp[0] == 'name':
                return self.lookup(self.modules[imp[1]], imp[2], _seen)
            return ('ext', imp[1])
        for rel in module.stars:
            r = self.lookup(self.modules[rel], name, _seen)
            if r:
                return r
        return None

    def resolve(self, module, expr, local_imports=None):
        """resolve a dotted expression in module scope (same result kinds as
        lookup)"""
        if isinstance(expr, ast.Name):
            if local_imports and expr.id in local_imports:
                imp = local_imports[expr.id]
                if imp[0] == 'mod':
                    return ('mod', self.modules[imp[1]])
                if imp[0] == 'name':
                    return self.lookup(self.modules[imp[1]], imp[2])
                return ('ext', imp[1])
            return self.lookup(module, expr.id)
        if isinstance(expr, ast.Attribute):
            base = self.resolve(module, expr.value, local_imports)
            if not base:
                return None
            if base[0] == 'mod':
                return self.lookup(base[1], expr.attr)
            if base[0] == 'class':
                c = base[1]
                for k in self.mro(c):
                    if expr.attr in k.methods:
                        return ('func', k.methods[expr.attr])
                    if expr.attr in k.consts:
                        return ('const', k.module, [k.consts[expr.attr]])
                return None
            if base[0] == 'ext':
                return ('ext', base[1] + '.' + expr.attr)
        return None

    # --------------------------------------------------------------------------
    # classes
    def cls(self, rel, name):
        m = self.module(rel)
        c = m.classes.get(name)
        if c is None:
            raise AnalysisError('anchor class %s::%s not found' % (rel, name))
        return c

    def all_classes(self):
        for m in self.modules.values():
            yield from m.classes.values()

    def bases(self, c):
        out = []
        for b in c.node.bases:
            r = self.resolve(c.module, b)
            if r and r[0] == 'class':
                out.append(r[1])
        return out

    def mro(self, c):
        key = (c.module.rel, c.name)
        if key in self._mro_cache:
            return self._mro_cache[key]
        self._mro_cache[key] = [c]          # cycle guard
        seqs = [self.mro(b)[:] for b in self.bases(c)] + [self.bases(c)[:]]
        res = [c]
        while True:
            seqs = [s for s in seqs if s]
            if not seqs:
                break
            cand = None
            for s in seqs:
                cand = s[0]
                if not any(cand in t[1:] for t in seqs):
                    break
                cand = None
            if cand is None:
                # inconsistent hierarchy: fall back to DFS order
                for s in seqs:
                    for k in s:
                        if k not in res:
                            res.append(k)
                break
            res.append(cand)
            for s in seqs:
                if s and s[0] is cand:
                    del s[0]
        self._mro_cache[key] = res
        return res

    def subclasses(self, c, strict=False):
        out = []
        for k in self.all_classes():
            if c in self.mro(k) and not (strict and k is c):
                out.append(k)
        return out

    def find_method(self, c, name, after=None):
        """method lookup along the MRO of concrete class c (optionally starting
        after class `after`, for super())"""
        mro = self.mro(c)
        if after is not None and after in mro:
            mro = mro[mro.index(after) + 1:]
        for k in mro:
            if name in k.methods:
                return k.methods[name]
        return None

    def method(self, rel, cname, mname):
        """anchored method: looked up in the named class, then along its MRO,
        then in its subclasses; missing -> AnalysisError (exit 2)"""
        c = self.cls(rel, cname)
        f = self.find_method(c, mname)
        if f is None:
            for k in self.subclasses(c, strict=True):
                if mname in k.methods:
                    return k.methods[mname]
            raise AnalysisError('anchor method %s::%s.%s not found'
                                % (rel, cname, mname))
        return f

    def function(self, rel, name):
        m = self.module(rel)
        f = m.funcs.get(name)
        if f is None:
            raise AnalysisError('anchor function %s::%s not found' % (rel, name))
        return f

    def nested(self, f, name):
        g = f.nested.get(name)
        if g is None:
            raise AnalysisError('anchor nested function %s.%s not found'
                                % (f.where, name))
        return g

    # --------------------------------------------------------------------------
    # calls
    def resolve_call(self, func, call, concrete=None):
        """FuncInfo of the callee of `call` occurring inside `func`, analysed
        for concrete class `concrete` (default: the defining class)"""
        return self.resolve_callable(func, call.func, concrete)

    def resolve_callable(self, func, f, concrete=None):
        cls = concrete or func.cls
        if isinstance(f, ast.Attribute):
            v = f.value
            # self.m / cls.m
            if isinstance(v, ast.Name) and v.id in ('self', 'cls') and cls:
                return self.find_method(cls, f.attr)
            # super().m / super(X, self).m
            if isinstance(v, ast.Call) and isinstance(v.func, ast.Name) \
                    and v.func.id == 'super' and cls and func.cls:
                return self.find_method(cls, f.attr, after=func.cls)
            r = self.resolve(func.module, f)
            if r and r[0] == 'func':
                return r[1]
            return None
        if isinstance(f, ast.Name):
            g = func
            while g is not None:
                if f.id in g.nested:
                    return g.nested[f.id]
                g = g.parent
            r = self.lookup(func.module, f.id)
            if r and r[0] == 'func':
                return r[1]
            if r and r[0] == 'class':
                return self.find_method(r[1], '__init__')
        return None

    # --------------------------------------------------------------------------
    # constant folding
    def fold(self, module, expr, cls=None, _depth=0):
        """literal value of expr in module scope, or UNKNOWN"""
        if _depth > 12:
            return UNKNOWN
        d = _depth + 1
        if isinstance(expr, ast.Constant):
            return expr.value
        if isinstance(expr, (ast.List, ast.Tuple, ast.Set)):
            vals = []
            for e in expr.elts:
                if isinstance(e, ast.Starred):
                    v = self.fold(module, e.value, cls, d)
                    if v is UNKNOWN or not isinstance(v, (list, tuple)):
                        return UNKNOWN
                    vals.extend(v)
                    continue
                v = self.fold(module, e, cls, d)
                if v is UNKNOWN:
                    return UNKNOWN
                vals.append(v)
            if isinstance(expr, ast.Tuple):
                return tuple(vals)
            return vals
        if isinstance(expr, ast.Dict):
            out = {}
            for k, v in zip(expr.keys, expr.values):
                if k is None:
                    return UNKNOWN
                kk = self.fold(module, k, cls, d)
                vv = self.fold(module, v, cls, d)
                if kk is UNKNOWN or vv is UNKNOWN:
                    return UNKNOWN
                try:
                    out[kk] = vv
                except TypeError:
                    return UNKNOWN
            return out
        if isinstance(expr, ast.UnaryOp) and isinstance(expr.op, ast.USub):
            v = self.fold(module, expr.operand, cls, d)
            if isinstance(v, (int, float)):
                return -v
            return UNKNOWN
        if isinstance(expr, ast.BinOp):
            l = self.fold(module, expr.left, cls, d)
            r = self.fold(module, expr.right, cls, d)
            if l is UNKNOWN or r is UNKNOWN:
                return UNKNOWN
            try:
                if isinstance(expr.op, ast.Add):
                    return l + r
                if isinstance(expr.op, ast.Mult):
                    return l * r
                if isinstance(expr.op, ast.Sub):
                    return l - r
                if isinstance(expr.op, ast.Mod) and isinstance(l, str):
                    return l % r
            except Exception:
                return UNKNOWN
            return UNKNOWN
        if isinstance(expr, ast.Name):
            if cls is not None:
                for k in self.mro(cls):
                    if expr.id in k.consts:
                        return self.fold(k.module, k.consts[expr.id], None, d)
            r = self.lookup(module, expr.id)
            return self._fold_ref(r, d)
        if isinstance(expr, ast.Attribute):
            if isinstance(expr.value, ast.Name) and expr.value.id in \
                    ('self', 'cls') and cls is not None:
                for k in self.mro(cls):
                    if expr.attr in k.consts:
                        return self.fold(k.module, k.consts[expr.attr], None, d)
                return UNKNOWN
            r = self.resolve(module, expr)
            return self._fold_ref(r, d)
        return UNKNOWN

    def _fold_ref(self, r, d):
        if not r or r[0] != 'const':
            return UNKNOWN
        _, mod, exprs = r
        if len(exprs) != 1:
            # assigned several times: a constant only if all values agree
            vals = [self.fold(mod, e, None, d) for e in exprs]
            if any(v is UNKNOWN for v in vals):
                return UNKNOWN
            try:
                if all(v == vals[0] and type(v) is type(vals[0])
                       for v in vals[1:]):
                    return vals[0]
            except Exception:
                pass
            return UNKNOWN
        return self.fold(mod, exprs[0], None, d)

    def const(self, rel, name):
        m = self.module(rel)
        if name not in m.assigns:
            raise AnalysisError('anchor constant %s::%s not found' % (rel, name))
        v = self.fold(m, ast.Name(id=name, ctx=ast.Load()))
        if v is UNKNOWN:
            raise AnalysisError('anchor constant %s::%s cannot be folded'
                                % (rel, name))
        return v


# ------------------------------------------------------------------------------
#
def read_json_tolerant(text):
    """radical.utils.read_json strips '#' comments; do the same without
    importing it.  A '#' inside a JSON string is preserved."""
    out = []
    for line in text.splitlines():
        res = []
        in_str = False
        esc = False
        for ch in line:
            if in_str:
                res.append(ch)
                if esc:
                    esc = False
                elif ch == '\\':
                    esc = True
                elif ch == '"':
                    in_str = False
                continue
            if ch == '"':
                in_str = True
                res.append(ch)
            elif ch == '#':
                break
            else:
                res.append(ch)
        out.append(''.join(res))
    txt = '\n'.join(out)
    # trailing commas are tolerated by ru.read_json? be lenient
    txt = re.sub(r',(\s*[}\]])', r'\1', txt)
    return json.loads(txt)
