"""Behaviour-preserving normalisation of the analysed sources (second view).

The rules are run on the tree as it is (view 0) and, when that view reports a
violation or cannot be analysed, again on a normalised tree (view 1) in which

  * helper functions which are NOT part of the frozen inventory of the
    reference tree (rpsa/inventory.json) are inlined at their call sites
    (extract-method refactorings disappear),
  * single-assignment locals that hold a pure test expression or alias a
    `self.<attr>` path are propagated into their uses (hoisted tests, cached
    attributes),
  * list/set/dict comprehensions assigned to a name are desugared into loops.

All three are semantics preserving, so a genuine violation is visible in both
views; a finding that is visible in only one view is an artefact of the shape
of the code, not of its behaviour (see main.run_consensus).
"""

import ast
import copy
import json
import os

from .model import walk, unparse, dotted

HERE = os.path.dirname(os.path.abspath(__file__))
MAX_STMTS = 60
_inv = None


def inventory():
    global _inv
    if _inv is None:
        p = os.path.join(HERE, 'inventory.json')
        _inv = json.load(open(p)) if os.path.exists(p) else {}
    return _inv


def make_inventory(prog):
    out = {}

    def nested(f, acc):
        for g in f.nested.values():
            acc.append(g.qual)
            nested(g, acc)
    for rel, m in prog.modules.items():
        names = sorted(m.funcs)
        for f in m.funcs.values():
            nested(f, names)
        for c in m.classes.values():
            names += ['%s.%s' % (c.name, n) for n in sorted(c.methods)]
            for f in c.methods.values():
                nested(f, names)
        out[rel] = names
    return out


# ------------------------------------------------------------------------------
#
def _count_stmts(body):
    n = 0
    for s in body:
        for x in ast.walk(s):
            if isinstance(x, ast.stmt):
                n += 1
    return n


def _has(node, types, nested=False):
    for x in (ast.walk(node) if nested else walk(node)):
        if isinstance(x, types):
            return True
    return False


def _ends_with_jump(body):
    if not body:
        return False
    s = body[-1]
    if isinstance(s, (ast.Return, ast.Raise, ast.Continue, ast.Break)):
        return True
    if isinstance(s, ast.If) and s.orelse:
        return _ends_with_jump(s.body) and _ends_with_jump(s.orelse)
    return False


def _tailify(body):
    """rewrite a statement list so that every `return` is in tail position
    (guard clauses become if/else); returns None if impossible (return inside
    a loop / try / with that is followed by more code)"""
    out = []
    for i, s in enumerate(body):
        rest = body[i + 1:]
        if isinstance(s, ast.Return):
            out.append(s)
            return out                      # code after return is dead
        if isinstance(s, ast.If):
            b = _tailify(s.body)
            o = _tailify(s.orelse) if s.orelse else []
            if b is None or o is None:
                return None
            has_ret = _has(ast.Module(body=b + o, type_ignores=[]),
                           ast.Return)
            if has_ret and rest:
                # push the rest into the branches that fall through
                r = _tailify(rest)
                if r is None:
                    return None
                nb = b if _ends_with_jump(b) else b + copy.deepcopy(r)
                no = o if (o and _ends_with_jump(o)) else o + copy.deepcopy(r)
                n = ast.If(test=s.test, body=nb or [ast.Pass()],
                           orelse=no)
                ast.copy_location(n, s)
                out.append(n)
                return out
            n = ast.If(test=s.test, body=b or [ast.Pass()], orelse=o)
            ast.copy_location(n, s)
            out.append(n)
            continue
        if isinstance(s, (ast.For, ast.While, ast.Try, ast.With,
                          ast.AsyncFor, ast.AsyncWith)):
            if _has(s, ast.Return):
                if rest and isinstance(s, ast.With) and all(
                        isinstance(x, ast.Return) and (
                            x.value is None or
                            isinstance(x.value, (ast.Constant, ast.Name)))
                        for x in rest):
                    # a with-block followed by nothing but `return <const>`:
                    # evaluate the trailing return inside the block (no effect
                    # is moved into the managed region)
                    b = _tailify(s.body + rest)
                    if b is None:
                        return None
                    n = ast.With(items=s.items, body=b)
                    ast.copy_location(n, s)
                    out.append(n)
                    return out
                if rest:
                    return None
                # return inside a with-block in tail position is fine; loops
                # and try are not handled
                if isinstance(s, ast.With):
                    b = _tailify(s.body)
                    if b is None:
                        return None
                    n = ast.With(items=s.items, body=b)
                    ast.copy_location(n, s)
                    out.append(n)
                    return out
                return None
            
        out.append(s)
    return out


class _Subst(ast.NodeTransformer):
    def __init__(self, mapping):
        self.mapping = mapping

    def visit_Name(self, node):
        if node.id in self.mapping:
            v = self.mapping[node.id]
            if isinstance(v, str):
                return ast.copy_location(ast.Name(id=v, ctx=node.ctx), node)
            if isinstance(node.ctx, ast.Load):
                return ast.copy_location(copy.deepcopy(v), node)
        return node

    def visit_FunctionDef(self, node):
        return node                         # do not descend into nested defs

    visit_Lambda = visit_FunctionDef
    visit_ClassDef = visit_FunctionDef


def _simple_arg(e):
    while isinstance(e, (ast.Attribute, ast.Subscript)):
        if isinstance(e, ast.Subscript) and not isinstance(e.slice,
                                                           ast.Constant):
            return False
        e = e.value
    return isinstance(e, (ast.Name, ast.Constant))


def _assigned(fn):
    out = set()
    for x in walk(fn):
        if isinstance(x, ast.Name) and isinstance(x.ctx, (ast.Store, ast.Del)):
            out.add(x.id)
        elif isinstance(x, ast.ExceptHandler) and x.name:
            out.add(x.name)
    return out


class Inliner:

    def __init__(self, prog, known):
        self.prog = prog
        self.known = known            # rel -> set(quals) of the reference tree
        self.count = 0

    # is this function new with respect to the reference tree?
    def is_new(self, finfo):
        rel = finfo.module.rel
        if rel not in self.known:
            return False              # whole new module: leave alone
        names = self.known[rel]
        if finfo.qual in names:
            return False
        if finfo.parent is not None:
            return True
        # a method that exists under this name anywhere in the package's
        # reference tree (moved between base and subclass) is not new
        if finfo.cls is not None:
            for k in self.prog.mro(finfo.cls) + self.prog.subclasses(finfo.cls):
                q = '%s.%s' % (k.name, finfo.name)
                if q in self.known.get(k.module.rel, ()):
                    return False
        return True

    def callee(self, finfo, call):
        f = self.prog.resolve_call(finfo, call)
        if f is None or f is finfo or not self.is_new(f):
            return None
        if f.parent is not None:
            # a nested closure: only when it is a local function of the
            # caller itself which is only ever called (never handed out as a
            # value: callbacks run later and elsewhere) and which does not
            # re-bind names of the enclosing scope
            if f.parent is not finfo or not isinstance(call.func, ast.Name):
                return None
            for x in walk(finfo.node):
                if isinstance(x, ast.Name) and x.id == f.name and \
                        isinstance(x.ctx, ast.Load):
                    if not any(isinstance(c, ast.Call) and c.func is x
                               for c in walk(finfo.node)):
                        return None
        fn = f.node
        a = fn.args
        if a.vararg or a.kwarg or a.kwonlyargs or a.posonlyargs:
            return None
        if _has(fn, (ast.Yield, ast.YieldFrom, ast.Await, ast.Global,
                     ast.Nonlocal)):
            return None
        if any(isinstance(s, (ast.FunctionDef, ast.ClassDef))
               for s in ast.walk(fn) if s is not fn):
            return None
        if _count_stmts(fn.body) > MAX_STMTS:
            return None
        # recursion
        for c in ast.walk(fn):
            if isinstance(c, ast.Call) and self.prog.resolve_call(f, c) is f:
                return None
        return f

    def bind(self, f, call, hname, caller_names):
        """(prelude stmts, substituted body) or None"""
        fn = f.node
        params = [x.arg for x in fn.args.args]
        decos = [unparse(d) for d in fn.decorator_list]
        is_static = 'staticmethod' in decos
        is_cls = 'classmethod' in decos
        args = list(call.args)
        mapping = {}
        if f.cls is not None and not is_static and f.parent is None:
            if not params:
                return None
            # receiver
            recv = call.func.value if isinstance(call.func, ast.Attribute) \
                else None
            if recv is None:
                return None
            first = params.pop(0)
            if isinstance(recv, ast.Name) and recv.id in ('self', 'cls'):
                mapping[first] = 'self' if not is_cls else recv.id
            elif is_cls:
                mapping[first] = recv
            else:
                # Class.method(self, ...)
                if not args:
                    return None
                mapping[first] = args.pop(0)
        if any(isinstance(x, ast.Starred) for x in args) or \
                any(k.arg is None for k in call.keywords):
            return None
        if len(args) > len(params):
            return None
        bound = dict(zip(params, args))
        for k in call.keywords:
            if k.arg not in params or k.arg in bound:
                return None
            bound[k.arg] = k.value
        defaults = fn.args.defaults
        dpar = params[len(params) - len(defaults):] if defaults else []
        for p, dv in zip(dpar, defaults):
            bound.setdefault(p, dv)
        if set(bound) != set(params):
            return None
        assigned = _assigned(fn)
        prelude = []
        for p in params:
            a = bound[p]
            if _simple_arg(a) and p not in assigned:
                mapping[p] = a
            else:
                nm = '%s__%s' % (p, hname)
                prelude.append(ast.copy_location(ast.Assign(
                    targets=[ast.Name(id=nm, ctx=ast.Store())],
                    value=copy.deepcopy(a), lineno=call.lineno), call))
                mapping[p] = nm
        for loc in assigned:
            if loc not in mapping:
                mapping[loc] = '%s__%s' % (loc, hname)
        body = copy.deepcopy(fn.body)
        # drop docstring
        if body and isinstance(body[0], ast.Expr) and \
                isinstance(body[0].value, ast.Constant) and \
                isinstance(body[0].value.value, str):
            body = body[1:]
        sub = _Subst(mapping)
        body = [sub.visit(s) for s in body]
        for s in prelude + body:
            ast.fix_missing_locations(s)
        return prelude, body

    # --------------------------------------------------------------------------
    def _replace_returns(self, body, make):
        """body is tail-structured: replace each `return E` by make(E)"""
        out = []
        for s in body:
            if isinstance(s, ast.Return):
                out += make(s.value, s)
                return out
            if isinstance(s, ast.If):
                n = ast.If(test=s.test,
                           body=self._replace_returns(s.body, make) or
                           [ast.Pass()],
                           orelse=self._replace_returns(s.orelse, make))
                out.append(ast.copy_location(n, s))
                continue
            if isinstance(s, ast.With):
                n = ast.With(items=s.items,
                             body=self._replace_returns(s.body, make) or
                             [ast.Pass()])
                out.append(ast.copy_location(n, s))
                continue
            out.append(s)
        return out

    def _falls_through(self, body):
        return not _ends_with_jump(body) and not (
            body and isinstance(body[-1], ast.Return))

    def inline_stmt(self, finfo, s, caller_names):
        """replacement statement list for statement s, or None"""
        call = None
        kind = None
        if isinstance(s, ast.Expr) and isinstance(s.value, ast.Call):
            call, kind = s.value, 'expr'
        elif isinstance(s, ast.Assign) and isinstance(s.value, ast.Call) and \
                len(s.targets) == 1:
            call, kind = s.value, 'assign'
        elif isinstance(s, ast.Return) and isinstance(s.value, ast.Call):
            call, kind = s.value, 'return'
        elif isinstance(s, ast.If):
            t = s.test
            neg = False
            if isinstance(t, ast.UnaryOp) and isinstance(t.op, ast.Not):
                t, neg = t.operand, True
            if isinstance(t, ast.Call):
                call, kind = t, ('ifnot' if neg else 'if')
        if call is None:
            return None
        f = self.callee(finfo, call)
        if f is None:
            return None
        hname = f.name.strip('_')
        b = self.bind(f, call, hname, caller_names)
        if b is None:
            return None
        prelude, body = b
        # make every path end in an explicit return, all in tail position
        tail = _tailify(body + [ast.copy_location(ast.Return(value=None), s)])
        if tail is None:
            if kind in ('assign', 'expr'):
                new = self._loop_return_form(body, s, kind)
                if new is None:
                    return None
                for n in prelude + new:
                    ast.fix_missing_locations(n)
                self.count += 1
                return prelude + new
            return None
        body = tail

        def loc(n):
            return ast.copy_location(n, s)
        if kind == 'expr':
            new = self._replace_returns(body, lambda v, r: (
                [loc(ast.Expr(value=v))] if v is not None and
                _has(v, ast.Call) else []))
        elif kind == 'assign':
            tgt = s.targets[0]

            def mk(v, r):
                return [ast.copy_location(ast.Assign(
                    targets=[copy.deepcopy(tgt)],
                    value=v if v is not None else ast.Constant(value=None),
                    lineno=r.lineno), r)]
            new = self._replace_returns(body, mk)
        elif kind == 'return':
            new = self._replace_returns(body, lambda v, r: [ast.copy_location(
                ast.Return(value=v), r)])
        else:
            s_true = s.body if kind == 'if' else (s.orelse or [])
            s_false = (s.orelse or []) if kind == 'if' else s.body
            n_ret = sum(1 for x in ast.walk(ast.Module(body=body,
                                                       type_ignores=[]))
                        if isinstance(x, ast.Return))
            size = _count_stmts(s_true) + _count_stmts(s_false)
            if n_ret * size > 40:
                return None

            def mk(v, r):
                if v is None or (isinstance(v, ast.Constant) and not v.value):
                    return copy.deepcopy(s_false)
                if isinstance(v, ast.Constant) and v.value:
                    return copy.deepcopy(s_true)
                n = ast.If(test=v, body=copy.deepcopy(s_true) or [ast.Pass()],
                           orelse=copy.deepcopy(s_false))
                return [ast.copy_location(n, r)]
            new = self._replace_returns(body, mk)
        for n in prelude + new:
            ast.fix_missing_locations(n)
        self.count += 1
        return prelude + (new or [loc(ast.Pass())])

    def _loop_return_form(self, body, s, kind):
        """callee = pre ; loop with `return E` at loop depth 1 and no break ;
        post (tail-structured).  `x = h(..)` becomes pre ; loop with the
        returns turned into `x = E; break` ; else: post with its returns
        turned into assignments"""
        idx = [i for i, st in enumerate(body)
               if isinstance(st, (ast.For, ast.While)) and _has(st, ast.Return)]
        if len(idx) != 1:
            return None
        i = idx[0]
        pre, loop, post = body[:i], body[i], body[i + 1:]
        if any(_has(st, ast.Return) for st in pre):
            return None
        # no break of its own, returns not inside nested loops / try
        for x in ast.walk(loop):
            if isinstance(x, ast.Break):
                return None
        for st in ast.walk(loop):
            if st is not loop and isinstance(st, (ast.For, ast.While, ast.Try)) \
                    and _has(st, ast.Return):
                return None
        post_t = _tailify(post + [ast.copy_location(ast.Return(value=None), s)])
        if post_t is None:
            return None
        tgt = s.targets[0] if kind == 'assign' else None

        def mk(v, r):
            out = []
            if tgt is not None:
                out.append(ast.copy_location(ast.Assign(
                    targets=[copy.deepcopy(tgt)],
                    value=v if v is not None else ast.Constant(value=None),
                    lineno=r.lineno), r))
            elif v is not None and _has(v, ast.Call):
                out.append(ast.copy_location(ast.Expr(value=v), r))
            return out

        def in_loop(stmts):
            out = []
            for st in stmts:
                if isinstance(st, ast.Return):
                    out += mk(st.value, st) + [ast.copy_location(ast.Break(),
                                                                 st)]
                    return out
                for fld in ('body', 'orelse'):
                    if hasattr(st, fld) and isinstance(getattr(st, fld), list):
                        setattr(st, fld, in_loop(getattr(st, fld)))
                out.append(st)
            return out
        loop = copy.deepcopy(loop)
        orelse = list(loop.orelse)
        loop.body = in_loop(loop.body)
        loop.orelse = orelse + self._replace_returns(post_t, mk)
        return pre + [loop]

    def _falls_through_to_none(self, body):
        """some path reaches the end of the (tail-structured) body without a
        return"""
        if not body:
            return True
        s = body[-1]
        if isinstance(s, (ast.Return, ast.Raise)):
            return False
        if isinstance(s, ast.If):
            return self._falls_through_to_none(s.body) or \
                self._falls_through_to_none(s.orelse)
        if isinstance(s, ast.With):
            return self._falls_through_to_none(s.body)
        return True

    def _all_paths_assign(self, new):
        return False

    # --------------------------------------------------------------------------
    def run_function(self, finfo):
        """inline new helpers in one function (in place on a deep copy that the
        caller made); returns True if anything changed"""
        changed = False
        names = _assigned(finfo.node) | set(finfo.params)

        def do_block(stmts):
            nonlocal changed
            out = []
            for s in stmts:
                for fld in ('body', 'orelse', 'finalbody'):
                    if hasattr(s, fld) and isinstance(getattr(s, fld), list) \
                            and not isinstance(s, (ast.FunctionDef,
                                                   ast.ClassDef)):
                        setattr(s, fld, do_block(getattr(s, fld)))
                if hasattr(s, 'handlers'):
                    for h in s.handlers:
                        h.body = do_block(h.body)
                rep = self.inline_stmt(finfo, s, names)
                if rep is not None:
                    changed = True
                    out += rep
                else:
                    out.append(s)
            return out
        finfo.node.body = do_block(finfo.node.body)
        if changed and finfo.nested:
            # local functions whose every call was inlined are dead
            used = {x.id for x in walk(finfo.node)
                    if isinstance(x, ast.Name) and isinstance(x.ctx, ast.Load)}

            def prune(stmts):
                out = []
                for s in stmts:
                    if isinstance(s, (ast.FunctionDef, ast.AsyncFunctionDef)) \
                            and s.name in finfo.nested and \
                            s.name not in used and \
                            self.is_new(finfo.nested[s.name]):
                        continue
                    for fld in ('body', 'orelse', 'finalbody'):
                        b = getattr(s, fld, None)
                        if isinstance(b, list) and b and \
                                isinstance(b[0], ast.stmt) and \
                                not isinstance(s, (ast.FunctionDef,
                                                   ast.ClassDef)):
                            setattr(s, fld, prune(b) or [ast.Pass()])
                    out.append(s)
                return out
            finfo.node.body = prune(finfo.node.body) or [ast.Pass()]
        return changed


# ------------------------------------------------------------------------------
# copy propagation
#
_PURE_BUILTINS = {'bool', 'len', 'int', 'float', 'str', 'abs', 'min', 'max',
                  'isinstance', 'tuple', 'frozenset'}


def _strip_bool(e):
    """bool(<comparison>) is the comparison itself"""
    while isinstance(e, ast.Call) and dotted(e.func) == 'bool' and \
            len(e.args) == 1 and not e.keywords and isinstance(
                e.args[0], (ast.Compare, ast.BoolOp, ast.UnaryOp)):
        e = e.args[0]
    return e


def _pure_test(e):
    if isinstance(e, (ast.Compare, ast.BoolOp)) or (
            isinstance(e, ast.UnaryOp) and isinstance(e.op, ast.Not)):
        for x in ast.walk(e):
            if isinstance(x, (ast.NamedExpr, ast.Await, ast.Lambda)):
                return False
            if isinstance(x, ast.Call) and not (
                    dotted(x.func) in _PURE_BUILTINS and not x.keywords):
                return False
        return True
    return False


def _self_path(e):
    n = 0
    while isinstance(e, ast.Attribute):
        e = e.value
        n += 1
    return n >= 1 and isinstance(e, ast.Name) and e.id == 'self'


_MUTATING = {'append', 'extend', 'insert', 'pop', 'remove', 'clear', 'sort',
             'reverse', 'update', 'setdefault', 'popitem', 'add', 'discard',
             'put', 'appendleft', 'popleft'}
_QUIET_SELF = ('self._log.', 'self._prof.', 'self._rep.', 'self._logger.')


def package_facts(prog):
    """(names of @property methods; attribute -> names of the methods other
    than __init__ which assign `self.<attribute>`; method name -> names of the
    self-methods it calls) over the whole package, by name"""
    props, rebound, calls = set(), {}, {}
    for m in prog.modules.values():
        for x in ast.walk(m.tree):
            if isinstance(x, (ast.FunctionDef, ast.AsyncFunctionDef)):
                if any(dotted(d).split('.')[-1] in ('property', 'setter',
                                                    'cached_property')
                       for d in x.decorator_list):
                    props.add(x.name)
                cs = calls.setdefault(x.name, set())
                aug = {id(y.target) for y in ast.walk(x)
                       if isinstance(y, ast.AugAssign)}
                for y in ast.walk(x):
                    if isinstance(y, ast.Call) and isinstance(
                            y.func, ast.Attribute) and isinstance(
                            y.func.value, ast.Name) and \
                            y.func.value.id == 'self':
                        cs.add(y.func.attr)
                    # `self.x += [..]` extends a container in place
                    if x.name != '__init__' and \
                            isinstance(y, ast.Attribute) and isinstance(
                            y.ctx, (ast.Store, ast.Del)) and \
                            isinstance(y.value, ast.Name) and \
                            y.value.id == 'self' and id(y) not in aug:
                        rebound.setdefault(y.attr, set()).add(x.name)
    return props, rebound, calls


def _may_rebind(facts, method, attr):
    props, rebound, calls = facts
    targets = rebound.get(attr, set())
    if not targets:
        return False
    seen, todo = set(), [method]
    while todo:
        m = todo.pop()
        if m in seen:
            continue
        seen.add(m)
        if m in targets:
            return True
        todo.extend(calls.get(m, ()))
    return False


_ALIAS_SAFE_CALLS = {'len', 'list', 'sorted', 'set', 'tuple', 'enumerate',
                     'bool', 'any', 'all', 'sum', 'min', 'max', 'reversed',
                     'iter', 'dict', 'frozenset'}


def _container_alias(fn, name, v, facts):
    """`name = self.<attr>` where every use of `name` goes *through* the
    object (subscript / attribute base, loop iterable, membership) and no
    self-method called anywhere in this function can (transitively, by name)
    re-assign the attribute: the alias and the attribute path denote the same
    object at every use.  (Re-binding by another thread is not considered;
    the package re-binds container attributes only in start-up methods.)"""
    if facts is None or not isinstance(v, ast.Attribute) or not (
            isinstance(v.value, ast.Name) and v.value.id == 'self'):
        return False
    props = facts[0]
    if v.attr in props:
        return False
    parents = {}
    for x in ast.walk(fn):
        for ch in ast.iter_child_nodes(x):
            parents[id(ch)] = x
    for x in ast.walk(fn):
        if isinstance(x, ast.Name) and x.id == name and \
                isinstance(x.ctx, ast.Load):
            p = parents.get(id(x))
            if isinstance(p, (ast.Subscript, ast.Attribute)) and p.value is x:
                continue
            if isinstance(p, (ast.For, ast.comprehension)) and p.iter is x:
                continue
            if isinstance(p, ast.Compare) and len(p.ops) == 1 and isinstance(
                    p.ops[0], (ast.In, ast.NotIn)) and p.comparators[0] is x:
                continue
            # truth tests and pure builtins look at the object, not at the
            # name: `if not pids`, `len(pids)`, `sorted(pids)`
            if isinstance(p, (ast.If, ast.While, ast.IfExp)) and p.test is x:
                continue
            if isinstance(p, ast.UnaryOp) and isinstance(p.op, ast.Not):
                continue
            if isinstance(p, ast.BoolOp):
                continue
            if isinstance(p, ast.Call) and x in p.args and \
                    dotted(p.func) in _ALIAS_SAFE_CALLS and not p.keywords:
                continue
            return False
        if isinstance(x, ast.Call) and isinstance(x.func, ast.Attribute) and \
                isinstance(x.func.value, ast.Name) and \
                x.func.value.id == 'self' and \
                _may_rebind(facts, x.func.attr, v.attr):
            return False
    return True


def _stale_between(fn, def_stmt, name, v):
    """would the value of expression v (sampled at def_stmt into `name`) differ
    from v evaluated at a use of `name`?  Conservative (True = may be stale):
    v reads object contents (attribute, subscript, call, membership) and
    (a) a use sits in a loop the definition is outside of, or (b) between the
    definition and a use (pre-order) there is a store through, a mutating
    call on, or a call receiving one of the names v reads (any self-method
    call when v reads through self)."""
    # names bound in the function (parameters, locals); anything else is a
    # module-level name (imported module, constant): `rpc.BUSY` is a constant
    local = {a.arg for a in fn.args.args + fn.args.kwonlyargs +
             fn.args.posonlyargs}
    if fn.args.vararg:
        local.add(fn.args.vararg.arg)
    if fn.args.kwarg:
        local.add(fn.args.kwarg.arg)
    for x in ast.walk(fn):
        if isinstance(x, ast.Name) and isinstance(x.ctx, (ast.Store, ast.Del)):
            local.add(x.id)

    def _const_path(x):
        r = x
        while isinstance(r, ast.Attribute):
            r = r.value
        return isinstance(r, ast.Name) and r.id not in local
    skip = set()
    for x in ast.walk(v):
        if isinstance(x, ast.Attribute) and _const_path(x):
            for y in ast.walk(x):
                skip.add(id(y))
    content = any((isinstance(x, (ast.Attribute, ast.Subscript, ast.Call))
                   and id(x) not in skip)
                  or (isinstance(x, ast.Compare) and any(
                      isinstance(o, (ast.In, ast.NotIn)) for o in x.ops))
                  for x in ast.walk(v))
    if not content:
        return False
    roots = {x.id for x in ast.walk(v) if isinstance(x, ast.Name)}
    order = {}
    loops = {}

    def number(node, chain):
        order[id(node)] = len(order)
        loops[id(node)] = chain
        for ch in ast.iter_child_nodes(node):
            if isinstance(ch, (ast.FunctionDef, ast.AsyncFunctionDef,
                               ast.Lambda)):
                # closures run later: a use in one may see a stale value
                for x in ast.walk(ch):
                    order[id(x)] = len(order)
                    loops[id(x)] = chain + ('closure',)
                continue
            number(ch, chain + ((id(node),) if isinstance(
                node, (ast.For, ast.While)) and ch in node.body else ()))
    number(fn, ())
    d0 = max(order[id(x)] for x in ast.walk(def_stmt) if id(x) in order)
    dchain = loops[id(def_stmt)]
    uses = [x for x in ast.walk(fn) if isinstance(x, ast.Name) and
            x.id == name and isinstance(x.ctx, ast.Load)]
    if not uses:
        return False
    last = 0
    for u in uses:
        if id(u) not in order:
            return True
        if order[id(u)] < d0:
            return True                     # use before definition (loop)
        if any(h not in dchain for h in loops[id(u)]):
            return True
        last = max(last, order[id(u)])
    for x in ast.walk(fn):
        o = order.get(id(x))
        if o is None or not (d0 < o <= last):
            continue
        if isinstance(x, (ast.Attribute, ast.Subscript)) and \
                isinstance(x.ctx, (ast.Store, ast.Del)):
            r = x
            while isinstance(r, (ast.Attribute, ast.Subscript)):
                r = r.value
            if isinstance(r, ast.Name) and r.id in roots:
                return True
        if isinstance(x, ast.Call):
            d = dotted(x.func)
            if isinstance(x.func, ast.Attribute):
                r = x.func.value
                while isinstance(r, (ast.Attribute, ast.Subscript)):
                    r = r.value
                if isinstance(r, ast.Name) and r.id in roots:
                    if r.id == 'self':
                        if not d.startswith(_QUIET_SELF):
                            return True
                    elif x.func.attr in _MUTATING:
                        return True
            for a in list(x.args) + [k.value for k in x.keywords]:
                if isinstance(a, ast.Name) and a.id in roots and \
                        a.id != 'self' and not d.startswith(_QUIET_SELF) and \
                        d not in _PURE_BUILTINS:
                    return True
    return False


def _rebound_between(fn, def_stmt, name, ops):
    """is one of the plain names `ops` re-bound between the definition of
    `name` and one of its uses (pre-order), or does a use sit in a loop (or
    closure) the definition is outside of?  Conservative: True = maybe."""
    order = {}
    loops = {}

    def number(node, chain):
        order[id(node)] = len(order)
        loops[id(node)] = chain
        for ch in ast.iter_child_nodes(node):
            if isinstance(ch, (ast.FunctionDef, ast.AsyncFunctionDef,
                               ast.Lambda)):
                for x in ast.walk(ch):
                    order[id(x)] = len(order)
                    loops[id(x)] = chain + ('closure',)
                continue
            number(ch, chain + ((id(node),) if isinstance(
                node, (ast.For, ast.While)) and ch in node.body else ()))
    number(fn, ())
    d0 = max(order[id(x)] for x in ast.walk(def_stmt) if id(x) in order)
    dchain = loops[id(def_stmt)]
    uses = [x for x in ast.walk(fn) if isinstance(x, ast.Name) and
            x.id == name and isinstance(x.ctx, ast.Load)]
    last = 0
    for u in uses:
        if id(u) not in order or order[id(u)] < d0:
            return True
        if any(h not in dchain for h in loops[id(u)]):
            return True
        last = max(last, order[id(u)])
    for x in ast.walk(fn):
        if isinstance(x, ast.Name) and x.id in ops and \
                isinstance(x.ctx, (ast.Store, ast.Del)):
            o = order.get(id(x))
            if o is None or d0 < o <= last:
                return True
    return False


def _first_leaf(e):
    if isinstance(e, ast.Name):
        return e
    if isinstance(e, ast.UnaryOp) and isinstance(e.op, ast.Not):
        return _first_leaf(e.operand)
    if isinstance(e, ast.BoolOp):
        return _first_leaf(e.values[0])
    if isinstance(e, ast.Compare):
        return _first_leaf(e.left)
    return None


def inline_adjacent_tests(fn):
    """`t = <any expression>` directly followed by `if <test that evaluates t
    first>:` where t is bound once and read once: the expression moves into
    the test (no statement lies between, so even an impure expression is
    evaluated at the same point)"""
    stores, loads = {}, {}
    for x in walk(fn):
        if isinstance(x, ast.Name):
            if isinstance(x.ctx, ast.Load):
                loads[x.id] = loads.get(x.id, 0) + 1
            else:
                stores[x.id] = stores.get(x.id, 0) + 1
    changed = False

    def do_block(stmts):
        nonlocal changed
        out = []
        i = 0
        while i < len(stmts):
            s = stmts[i]
            nxt = stmts[i + 1] if i + 1 < len(stmts) else None
            if isinstance(s, ast.Assign) and len(s.targets) == 1 and \
                    isinstance(s.targets[0], ast.Name) and \
                    isinstance(nxt, ast.If):
                n = s.targets[0].id
                leaf = _first_leaf(nxt.test)
                val = _strip_bool(s.value)
                # a bare call result tested for truth (`ret = self.work_cb()`
                # / `if not ret`) is an idiom of its own: kept as it is
                if stores.get(n) == 1 and loads.get(n) == 1 and \
                        leaf is not None and leaf.id == n and \
                        isinstance(val, (ast.Compare, ast.BoolOp,
                                         ast.UnaryOp)):

                    class R(ast.NodeTransformer):
                        def visit_Name(self, node):
                            if node is leaf:
                                return ast.copy_location(
                                    copy.deepcopy(val), node)
                            return node
                    nxt.test = R().visit(nxt.test)
                    changed = True
                    i += 1
                    continue
            out.append(s)
            i += 1
        for s in out:
            if isinstance(s, (ast.FunctionDef, ast.ClassDef,
                              ast.AsyncFunctionDef)):
                continue
            for fld in ('body', 'orelse', 'finalbody'):
                if isinstance(getattr(s, fld, None), list):
                    setattr(s, fld, do_block(getattr(s, fld)))
            for h in getattr(s, 'handlers', []) or []:
                h.body = do_block(h.body)
        return out
    fn.body = do_block(fn.body)
    if changed:
        ast.fix_missing_locations(fn)
    return changed


def propagate(fn, facts=None):
    """substitute single-assignment locals holding a pure test expression or
    a `self.<attr>` path into their uses"""
    assigns = {}
    stores = {}
    for x in walk(fn):
        if isinstance(x, ast.Name) and isinstance(x.ctx, (ast.Store, ast.Del)):
            stores[x.id] = stores.get(x.id, 0) + 1
        if isinstance(x, ast.Assign) and len(x.targets) == 1 and \
                isinstance(x.targets[0], ast.Name):
            assigns.setdefault(x.targets[0].id, []).append(x)
    params = {a.arg for a in fn.args.args + fn.args.kwonlyargs}
    attr_stores = set()
    for x in walk(fn):
        tg = []
        if isinstance(x, ast.Assign):
            tg = x.targets
        elif isinstance(x, (ast.AugAssign, ast.AnnAssign)):
            tg = [x.target]
        for t in tg:
            for e in ast.walk(t):
                if isinstance(e, ast.Attribute) and isinstance(e.ctx,
                                                               ast.Store):
                    attr_stores.add(unparse(e))
    mapping = {}
    drop = set()
    for name, lst in assigns.items():
        if stores.get(name, 0) != 1 or name in params or len(lst) != 1:
            continue
        v = _strip_bool(lst[0].value)
        ok = False
        if _pure_test(v):
            # operands must not be re-assigned between the definition and
            # the uses
            ops = {n.id for n in ast.walk(v) if isinstance(n, ast.Name)}
            ok = all(stores.get(o, 0) == 0 for o in ops) or \
                not _rebound_between(fn, lst[0], name, ops)
        elif _self_path(v):
            ok = unparse(v) not in attr_stores and not any(
                a.startswith(unparse(v) + '.') or unparse(v).startswith(a + '.')
                for a in attr_stores)
        elif isinstance(v, ast.Name) and v.id != name and (
                (stores.get(v.id, 0) == 1 and v.id not in params) or
                (stores.get(v.id, 0) == 0 and v.id in params)):
            # plain alias of another name that is bound exactly once: both
            # names denote the same object for the whole function
            if not _rebound_between(fn, lst[0], name, {v.id}):
                mapping[name] = v
                drop.add(id(lst[0]))
            continue
        elif isinstance(v, ast.Call) and isinstance(v.func, ast.Attribute) \
                and v.func.attr in ('values', 'keys', 'items') and \
                not v.args and not v.keywords and (
                    isinstance(v.func.value, ast.Name) or
                    _self_path(v.func.value)):
            # live view of a mapping: evaluating it at the use gives a view of
            # the same mapping as long as the receiver is not re-bound
            ops = {n.id for n in ast.walk(v) if isinstance(n, ast.Name)}
            if not _rebound_between(fn, lst[0], name, ops - {'self'}) and (
                    not _self_path(v.func.value) or
                    unparse(v.func.value) not in attr_stores):
                mapping[name] = v
                drop.add(id(lst[0]))
            continue
        if ok and _self_path(v) and _container_alias(fn, name, v, facts):
            pass        # reference to a container attribute never rebound
        elif ok and _stale_between(fn, lst[0], name, v):
            ok = False
        if ok:
            mapping[name] = v
    if not mapping:
        return False

    class P(ast.NodeTransformer):
        def visit_Name(self, node):
            if isinstance(node.ctx, ast.Load) and node.id in mapping:
                return ast.copy_location(copy.deepcopy(mapping[node.id]), node)
            return node

        def visit_FunctionDef(self, node):
            return node
        visit_Lambda = visit_FunctionDef
    # alias chains: a -> b, b -> c  =>  a -> c
    for _ in range(4):
        for k, v in list(mapping.items()):
            if isinstance(v, ast.Name) and v.id in mapping:
                mapping[k] = mapping[v.id]
    for i, s in enumerate(fn.body):
        fn.body[i] = P().visit(s)
    if drop:
        def prune(stmts):
            out = []
            for st in stmts:
                if id(st) in drop:
                    continue
                if isinstance(st, (ast.FunctionDef, ast.ClassDef,
                                   ast.AsyncFunctionDef)):
                    out.append(st)
                    continue
                for fld in ('body', 'orelse', 'finalbody'):
                    b = getattr(st, fld, None)
                    if isinstance(b, list) and b and \
                            isinstance(b[0], ast.stmt):
                        setattr(st, fld, prune(b) or [ast.Pass()])
                for h in getattr(st, 'handlers', []) or []:
                    h.body = prune(h.body) or [ast.Pass()]
                out.append(st)
            return out
        fn.body = prune(fn.body) or [ast.Pass()]
    ast.fix_missing_locations(fn)
    return True


# ------------------------------------------------------------------------------
# comprehension desugaring
#
def desugar_comprehensions(fn):
    changed = False

    def conv(s):
        nonlocal changed
        if not (isinstance(s, ast.Assign) and len(s.targets) == 1 and
                isinstance(s.targets[0], ast.Name)):
            return None
        v = s.value
        if isinstance(v, (ast.ListComp, ast.SetComp, ast.DictComp)) and \
                len(v.generators) == 1 and not v.generators[0].is_async:
            gen = v.generators[0]
            name = s.targets[0].id
            if name in {n.id for n in ast.walk(gen.iter)
                        if isinstance(n, ast.Name)}:
                # x = [.. for t in x ..]: needs a temporary
                return None
            if isinstance(v, ast.ListComp):
                init = ast.Call(func=ast.Name(id='list', ctx=ast.Load()),
                                args=[], keywords=[])
                add = ast.Expr(value=ast.Call(func=ast.Attribute(
                    value=ast.Name(id=name, ctx=ast.Load()), attr='append',
                    ctx=ast.Load()), args=[v.elt], keywords=[]))
            elif isinstance(v, ast.SetComp):
                init = ast.Call(func=ast.Name(id='set', ctx=ast.Load()),
                                args=[], keywords=[])
                add = ast.Expr(value=ast.Call(func=ast.Attribute(
                    value=ast.Name(id=name, ctx=ast.Load()), attr='add',
                    ctx=ast.Load()), args=[v.elt], keywords=[]))
            else:
                init = ast.Call(func=ast.Name(id='dict', ctx=ast.Load()),
                                args=[], keywords=[])
                add = ast.Assign(targets=[ast.Subscript(
                    value=ast.Name(id=name, ctx=ast.Load()), slice=v.key,
                    ctx=ast.Store())], value=v.value)
            body = [add]
            for c in reversed(gen.ifs):
                body = [ast.If(test=c, body=body, orelse=[])]
            loop = ast.For(target=gen.target, iter=gen.iter, body=body,
                           orelse=[])
            a = ast.Assign(targets=[ast.Name(id=name, ctx=ast.Store())],
                           value=init)
            for n in (a, loop):
                ast.copy_location(n, s)
                for x in ast.walk(n):
                    if not hasattr(x, 'lineno') and isinstance(
                            x, (ast.stmt, ast.expr)):
                        ast.copy_location(x, s)
                ast.fix_missing_locations(n)
            changed = True
            return [a, loop]
        return None

    def do_block(stmts):
        out = []
        for s in stmts:
            for fld in ('body', 'orelse', 'finalbody'):
                if hasattr(s, fld) and isinstance(getattr(s, fld), list) and \
                        not isinstance(s, (ast.FunctionDef, ast.ClassDef)):
                    setattr(s, fld, do_block(getattr(s, fld)))
            if hasattr(s, 'handlers'):
                for h in s.handlers:
                    h.body = do_block(h.body)
            r = conv(s)
            out += r if r else [s]
        return out
    fn.body = do_block(fn.body)
    return changed


# ------------------------------------------------------------------------------
# loops over a literal sequence -> unrolled (table-driven clean-ups such as
# `for kind in ('cores', 'gpus'): ...node[kind]...` disappear)
#
def _simple_elt(e):
    if isinstance(e, ast.Constant):
        return True
    if isinstance(e, ast.Name):
        return True
    if isinstance(e, ast.Attribute):
        return _simple_elt(e.value)
    if isinstance(e, ast.Subscript):
        return _simple_elt(e.value) and isinstance(e.slice, ast.Constant)
    return False


def _decontinue(body):
    """rewrite `continue` of the loop level away: `if c: ...; continue` +
    REST  ->  `if c: ... else: REST`.  None if a continue sits elsewhere."""
    out = []
    for i, s in enumerate(body):
        rest = body[i + 1:]
        if isinstance(s, ast.Continue):
            return out
        if isinstance(s, ast.Break):
            return None
        if isinstance(s, ast.If):
            b = _decontinue(s.body)
            o = _decontinue(s.orelse) if s.orelse else []
            if b is None or o is None:
                return None
            b_cont = bool(s.body) and isinstance(s.body[-1], ast.Continue) \
                or len(b) != len(s.body)
            o_cont = bool(s.orelse) and (isinstance(s.orelse[-1], ast.Continue)
                                         or len(o) != len(s.orelse))
            if (b_cont or o_cont) and rest:
                r = _decontinue(rest)
                if r is None:
                    return None
                nb = b if b_cont else b + r
                no = o if o_cont else o + copy.deepcopy(r)
                n = ast.If(test=s.test, body=nb or [ast.Pass()], orelse=no)
                ast.copy_location(n, s)
                out.append(n)
                return out
            n = ast.If(test=s.test, body=b or [ast.Pass()], orelse=o)
            ast.copy_location(n, s)
            out.append(n)
            continue
        if isinstance(s, (ast.Try, ast.With)):
            for x in walk(s):
                if isinstance(x, (ast.Continue, ast.Break)):
                    # only if it belongs to this loop level: a nested loop
                    # owns its own jumps, but walk() does not tell; be strict
                    inner = any(isinstance(y, (ast.For, ast.While))
                                for y in walk(s))
                    if not inner:
                        return None
        out.append(s)
    return out


def _own_jumps(body):
    """Continue/Break statements that belong to the loop whose body this is"""
    found = []

    def rec(stmts):
        for s in stmts:
            if isinstance(s, (ast.Continue, ast.Break)):
                found.append(s)
            elif isinstance(s, (ast.For, ast.While, ast.AsyncFor)):
                rec(s.orelse)
            elif isinstance(s, (ast.FunctionDef, ast.ClassDef,
                                ast.AsyncFunctionDef)):
                continue
            else:
                for fld in ('body', 'orelse', 'finalbody'):
                    b = getattr(s, fld, None)
                    if isinstance(b, list):
                        rec(b)
                for h in getattr(s, 'handlers', []) or []:
                    rec(h.body)
    rec(body)
    return found


def unroll_const_loops(fn):
    changed = False
    loads_outside = {}

    def stores_in(nodes):
        out = set()
        for s in nodes:
            for x in ast.walk(s):
                if isinstance(x, ast.Name) and isinstance(x.ctx, (ast.Store,
                                                                   ast.Del)):
                    out.add(x.id)
        return out

    def conv(s, uid):
        nonlocal changed
        if not isinstance(s, ast.For) or s.orelse:
            return None
        it = s.iter
        if not isinstance(it, (ast.List, ast.Tuple)) or \
                not 1 <= len(it.elts) <= 6:
            return None
        if isinstance(s.target, ast.Name):
            names = [s.target.id]
            rows = [[e] for e in it.elts]
        elif isinstance(s.target, (ast.Tuple, ast.List)) and all(
                isinstance(t, ast.Name) for t in s.target.elts):
            names = [t.id for t in s.target.elts]
            rows = []
            for e in it.elts:
                if not isinstance(e, (ast.Tuple, ast.List)) or \
                        len(e.elts) != len(names):
                    return None
                rows.append(list(e.elts))
        else:
            return None
        if not all(_simple_elt(e) for r in rows for e in r):
            return None
        st = stores_in(s.body)
        if st & set(names):
            return None
        for r in rows:
            for e in r:
                if any(isinstance(x, ast.Name) and x.id in st
                       for x in ast.walk(e)):
                    return None
        jumps = _own_jumps(s.body)
        if any(isinstance(j, ast.Break) for j in jumps):
            return None
        body = s.body
        if jumps:
            body = _decontinue(copy.deepcopy(s.body))
            if body is None or _own_jumps(body):
                return None
        # the loop variables must not be read after the loop
        used_after = set()
        for x in ast.walk(fn):
            if isinstance(x, ast.Name) and isinstance(x.ctx, ast.Load) and \
                    x.id in names:
                used_after.add(id(x))
        inside = {id(x) for x in ast.walk(s)}
        # reads inside another loop that binds the same name itself are fine
        for other in ast.walk(fn):
            if isinstance(other, (ast.For, ast.comprehension)) and \
                    other is not s and any(
                        isinstance(t, ast.Name) and t.id in names
                        for t in ast.walk(other.target)):
                holder = other
                if isinstance(other, ast.comprehension):
                    continue
                inside |= {id(x) for x in ast.walk(holder)}
        if used_after - inside:
            return None
        # locals of the body which are not read outside the loop get one name
        # per unrolled iteration (so that they stay single-assignment)
        outside_loads = {x.id for x in ast.walk(fn)
                         if isinstance(x, ast.Name) and id(x) not in inside
                         and not isinstance(x.ctx, ast.Store)}
        private = {n for n in st if n not in outside_loads}
        out = []
        for k, r in enumerate(rows):
            mapping = dict(zip(names, r))
            for n in private:
                mapping[n] = '%s__u%d_%d' % (n, uid, k)
            blk = [_Subst(mapping).visit(copy.deepcopy(x)) for x in body]
            for b in blk:
                for x in ast.walk(b):
                    if isinstance(x, (ast.expr, ast.stmt)) and \
                            not hasattr(x, 'lineno'):
                        ast.copy_location(x, s)
                ast.fix_missing_locations(b)
            out += blk
        changed = True
        return out or [ast.Pass()]

    counter = [0]

    def do_block(stmts):
        out = []
        for s in stmts:
            if isinstance(s, (ast.FunctionDef, ast.ClassDef,
                              ast.AsyncFunctionDef)):
                out.append(s)
                continue
            for fld in ('body', 'orelse', 'finalbody'):
                if isinstance(getattr(s, fld, None), list):
                    setattr(s, fld, do_block(getattr(s, fld)))
            for h in getattr(s, 'handlers', []) or []:
                h.body = do_block(h.body)
            counter[0] += 1
            r = conv(s, counter[0])
            out += r if r else [s]
        return out
    fn.body = do_block(fn.body)
    return changed


# ------------------------------------------------------------------------------
# table dispatch -> if-chain
#
def _table_of(prog, finfo, expr, local_tables):
    """dict literal behind `expr` (inline literal, single-assignment local,
    class attribute, module constant), or None"""
    if isinstance(expr, ast.Dict):
        return expr
    if isinstance(expr, ast.Name):
        if expr.id in local_tables:
            return local_tables[expr.id]
        vals = finfo.module.assigns.get(expr.id)
        if vals and len(vals) == 1 and isinstance(vals[0], ast.Dict):
            return vals[0]
    if isinstance(expr, ast.Attribute) and isinstance(expr.value, ast.Name) \
            and finfo.cls is not None:
        if expr.value.id in ('self', 'cls') or \
                expr.value.id in [k.name for k in prog.mro(finfo.cls)]:
            for k in prog.mro(finfo.cls):
                v = k.consts.get(expr.attr)
                if isinstance(v, ast.Dict):
                    return v
    return None


def _lookup(prog, finfo, e, local_tables):
    """(table, key expr, default expr or None, has_default) for
    T.get(K[, D]) / T[K]"""
    if isinstance(e, ast.Call) and isinstance(e.func, ast.Attribute) and \
            e.func.attr == 'get' and 1 <= len(e.args) <= 2 and not e.keywords:
        t = _table_of(prog, finfo, e.func.value, local_tables)
        if t is not None:
            return t, e.args[0], (e.args[1] if len(e.args) == 2 else
                                  ast.Constant(value=None)), True
    if isinstance(e, ast.Subscript) and isinstance(e.ctx, ast.Load):
        t = _table_of(prog, finfo, e.value, local_tables)
        if t is not None:
            return t, e.slice, None, False
    return None


def expand_tables(prog, finfo):
    """x = TABLE.get(KEY, DEFAULT)  ->  if KEY == k1: x = v1 elif ... else:
    x = DEFAULT;  and calls h(args) of a name h bound by such a lookup are
    expanded into the chain of the table's callables"""
    fn = finfo.node
    changed = False
    local_tables = {}
    counts = {}
    for x in walk(fn):
        if isinstance(x, ast.Name) and isinstance(x.ctx, ast.Store):
            counts[x.id] = counts.get(x.id, 0) + 1
    for x in walk(fn):
        if isinstance(x, ast.Assign) and len(x.targets) == 1 and \
                isinstance(x.targets[0], ast.Name) and \
                isinstance(x.value, ast.Dict) and \
                counts.get(x.targets[0].id) == 1:
            local_tables[x.targets[0].id] = x.value
    lookups = {}          # name -> (table, key, default, has_default)
    for x in walk(fn):
        if isinstance(x, ast.Assign) and len(x.targets) == 1 and \
                isinstance(x.targets[0], ast.Name) and \
                counts.get(x.targets[0].id) == 1:
            lk = _lookup(prog, finfo, x.value, local_tables)
            if lk and all(k is not None and isinstance(k, (ast.Constant,
                          ast.Attribute, ast.Name)) for k in lk[0].keys) and \
                    len(lk[0].keys) <= 12:
                lookups[x.targets[0].id] = lk

    def key_stable(key):
        # the key must denote the same value at the lookup and at the use:
        # names that are bound at most once in the function
        return all(counts.get(n.id, 0) <= 1 or n.id == 'self'
                   for n in ast.walk(key) if isinstance(n, ast.Name))

    def chain(lk, make, at):
        table, key, default, has_default = lk
        node = None
        orelse = make(default) if has_default else []
        for k, v in reversed(list(zip(table.keys, table.values))):
            test = ast.Compare(left=copy.deepcopy(key), ops=[ast.Eq()],
                               comparators=[copy.deepcopy(k)])
            node = ast.If(test=test, body=make(v) or [ast.Pass()],
                          orelse=orelse)
            ast.copy_location(node, at)
            orelse = [node]
        if node is None:
            return None
        for x in ast.walk(node):
            if isinstance(x, (ast.expr, ast.stmt)) and not hasattr(x, 'lineno'):
                ast.copy_location(x, at)
        ast.fix_missing_locations(node)
        return [node] if node is not None else None

    def conv(s):
        nonlocal changed
        # value table: x = T.get(K, D)
        if isinstance(s, ast.Assign) and len(s.targets) == 1 and \
                isinstance(s.targets[0], ast.Name):
            lk = lookups.get(s.targets[0].id)
            if lk and _lookup(prog, finfo, s.value, local_tables) and \
                    key_stable(lk[1]):
                callable_vals = all(isinstance(v, (ast.Attribute, ast.Name,
                                                   ast.Lambda))
                                    for v in lk[0].values)
                used_as_call = any(isinstance(c, ast.Call) and
                                   isinstance(c.func, ast.Name) and
                                   c.func.id == s.targets[0].id
                                   for c in walk(fn))
                if callable_vals and used_as_call:
                    return None      # expanded at the call site
                tgt = s.targets[0]

                def mk(v):
                    return [ast.Assign(targets=[copy.deepcopy(tgt)],
                                       value=copy.deepcopy(v),
                                       lineno=s.lineno)]
                r = chain(lk, mk, s)
                if r:
                    changed = True
                    return r
        # callable table: h(args) / x = h(args) / return h(args)
        call = None
        if isinstance(s, ast.Expr) and isinstance(s.value, ast.Call):
            call = s.value
        elif isinstance(s, ast.Assign) and isinstance(s.value, ast.Call) and \
                len(s.targets) == 1:
            call = s.value
        elif isinstance(s, ast.Return) and isinstance(s.value, ast.Call):
            call = s.value
        if call is not None and isinstance(call.func, ast.Name) and \
                call.func.id in lookups and key_stable(lookups[call.func.id][1]):
            lk = lookups[call.func.id]

            def mk(v):
                if isinstance(v, ast.Constant) and v.value is None:
                    return []
                c2 = copy.deepcopy(call)
                c2.func = copy.deepcopy(v)
                n2 = copy.deepcopy(s)
                n2.value = c2
                return [n2]
            r = chain(lk, mk, s)
            if r:
                changed = True
                return r
        return None

    def do_block(stmts):
        out = []
        for s in stmts:
            for fld in ('body', 'orelse', 'finalbody'):
                if hasattr(s, fld) and isinstance(getattr(s, fld), list) and \
                        not isinstance(s, (ast.FunctionDef, ast.ClassDef)):
                    setattr(s, fld, do_block(getattr(s, fld)))
            if hasattr(s, 'handlers'):
                for h in s.handlers:
                    h.body = do_block(h.body)
            r = conv(s)
            out += r if r else [s]
        return out
    if lookups:
        fn.body = do_block(fn.body)
    return changed


# ------------------------------------------------------------------------------
#
def normalized_program(prog, desugar=True):
    """a Program over the same sources with the normalisations applied
    (comprehension desugaring optional); returns (program, stats)"""
    from .model import Program
    known = {rel: set(v) for rel, v in inventory().items()}
    trees = {}
    for rel, m in prog.modules.items():
        trees[rel] = copy.deepcopy(m.tree)
    p2 = Program(prog.root, overlay=prog.overlay, trees=trees)
    inl = Inliner(p2, known)
    stats = {'inlined_calls': 0, 'propagated_functions': 0,
             'desugared_functions': 0}

    def all_funcs():
        for m in p2.modules.values():
            for f in m.funcs.values():
                yield f
            for c in m.classes.values():
                for f in c.methods.values():
                    yield f
    for rnd in range(3):
        any_change = False
        for f in list(all_funcs()):
            if desugar and desugar_comprehensions(f.node):
                stats['desugared_functions'] += 1
            if expand_tables(p2, f):
                stats['expanded_tables'] = stats.get('expanded_tables', 0) + 1
                any_change = True
            if unroll_const_loops(f.node):
                stats['unrolled_loops'] = stats.get('unrolled_loops', 0) + 1
                any_change = True
            if inl.run_function(f):
                any_change = True
        if not any_change:
            break
    # freshly inlined code gets the canonical spelling as well
    from .canon import canonicalize
    for t in trees.values():
        canonicalize(t)
    facts = package_facts(p2)
    for f in all_funcs():
        if inline_adjacent_tests(f.node):
            stats['adjacent_tests'] = stats.get('adjacent_tests', 0) + 1
        if propagate(f.node, facts):
            stats['propagated_functions'] += 1
    stats['inlined_calls'] = inl.count
    # new helpers whose every call site was inlined are dead: drop them, so
    # that sweeps over all methods do not see the extracted copy
    # A new method that nothing in the package referred to BEFORE the
    # inlining either is not a helper of this package (an override called by
    # radical.utils, e.g. `_verify`): it is kept.
    def names_of(program):
        out = set()
        for m in program.modules.values():
            for x in ast.walk(m.tree):
                if isinstance(x, ast.Attribute):
                    out.add(x.attr)
                elif isinstance(x, ast.Name):
                    out.add(x.id)
        return out
    referenced = names_of(p2)
    referenced_before = names_of(prog)
    for m in p2.modules.values():
        def prune(body, owner):
            keep = []
            for s in body:
                if isinstance(s, (ast.FunctionDef, ast.AsyncFunctionDef)):
                    q = ('%s.%s' % (owner, s.name)) if owner else s.name
                    if m.rel in known and q not in known[m.rel] and \
                            s.name not in referenced and \
                            s.name in referenced_before and \
                            not s.name.startswith('__'):
                        stats['dropped_helpers'] = stats.get(
                            'dropped_helpers', 0) + 1
                        continue
                if isinstance(s, ast.ClassDef):
                    s.body = prune(s.body, s.name) or [ast.Pass()]
                keep.append(s)
            return keep
        m.tree.body = prune(m.tree.body, None)
    # rebuild the model from the transformed trees (nested function tables
    # etc. refer to the old nodes)
    p3 = Program(prog.root, overlay=prog.overlay, trees=trees)
    return p3, stats
