"""Path exploration with abstract states, guard (control-dependence) queries and
a flow-insensitive dependence closure."""

import ast
from collections import deque

from .model import walk, unparse, short, root_name, stores_in_target, dotted


# ------------------------------------------------------------------------------
#
class Terminal:
    __slots__ = ('node', 'state', 'key', 'via')

    def __init__(self, node, state, key, via):
        self.node  = node     # node id where exploration stopped
        self.state = state
        self.key   = key
        self.via   = via      # label of the edge that reached the stop node


class Exploration:
    """BFS over the product (cfg node, abstract state, loops entered).  Each
    loop body is entered at most once per path (k=1 unrolling); the number of
    product states is the 'paths enumerated' figure in the evidence."""

    def __init__(self, cfg, start, init, transfer, stop=None, max_states=200000,
                 stop_edge=None):
        self.cfg       = cfg
        self.parent    = {}
        self.terminals = []
        self.states    = 0
        stop = stop or (lambda nid: nid in (cfg.exit.id, cfg.raise_.id))
        k0 = (start, init, frozenset())
        self.parent[k0] = None
        todo = deque([k0])
        while todo:
            key = todo.popleft()
            nid, st, entered = key
            self.states += 1
            if self.states > max_states:
                raise RuntimeError('path exploration exceeds %d states'
                                   % max_states)
            for e in cfg.succ[nid]:
                ent = entered
                if e.enter is not None:
                    if e.enter in entered:
                        continue
                    ent = entered | {e.enter}
                st2 = transfer(cfg.nodes[nid], e, st)
                if st2 is None:
                    continue
                k2 = (e.dst, st2, ent)
                if stop_edge is not None and stop_edge(e):
                    if k2 not in self.parent:
                        self.parent[k2] = (key, e)
                    self.terminals.append(Terminal(e.dst, st2, k2, e.label))
                    continue
                if k2 in self.parent:
                    continue
                self.parent[k2] = (key, e)
                if stop(e.dst):
                    self.terminals.append(Terminal(e.dst, st2, k2, e.label))
                    continue
                todo.append(k2)

    def path(self, terminal):
        """edges of one witness path to the terminal"""
        out = []
        key = terminal.key
        while self.parent.get(key) is not None:
            key, e = self.parent[key]
            out.append(e)
        out.reverse()
        return out

    def literals(self, terminal):
        """branch literals on the witness path, as 'atom' / 'not atom'"""
        out = []
        for e in self.path(terminal):
            n = self.cfg.nodes[e.src]
            if n.kind == 'test' and e.label in 'TF':
                a = short(n.ast, 70)
                out.append(a if e.label == 'T' else 'not (%s)' % a)
            elif e.label == 'exc' and n.ast is not None:
                out.append('raises: %s' % short(n.ast, 50))
            elif n.kind == 'for' and e.label in ('iter', 'done'):
                pass
        return out


# ------------------------------------------------------------------------------
#
def loop_slice(cfg, head):
    """(start node id, stop predicate, stop_edge predicate) for one iteration
    of the loop with head id `head`: stops at back edges to the head, at nodes
    outside of the body and at the function exits"""
    body = cfg.loop_body[head]
    start = None
    for e in cfg.succ[head]:
        if e.enter == head:
            start = e.dst
    if start is None:                       # while loop: enter edge after tests
        for nid in body:
            for e in cfg.succ[nid]:
                if e.enter == head:
                    start = e.dst
    def stop(nid):
        return nid not in body
    def stop_edge(e):
        return e.back and e.dst == head
    return start, stop, stop_edge


def guards(cfg, target, start=None, within=None):
    """branch edges (test node id, 'T'|'F') that every path from `start`
    (default: function entry) to `target` must take.  This is control
    dependence with polarity, computed by edge removal."""
    start = cfg.entry.id if start is None else start
    out = []
    base = cfg.reachable(start)
    if target not in base:
        return out
    for n in cfg.nodes:
        if n.kind != 'test' or n.id not in base:
            continue
        if within is not None and n.id not in within:
            continue
        for lab in ('T', 'F'):
            r = cfg.reachable(start, skip_edges=[(n.id, lab)])
            if target not in r:
                out.append((n.id, lab))
    return out


def guard_atoms(cfg, target, start=None, within=None):
    """[(atom ast, polarity bool)] for guards()"""
    return [(cfg.nodes[t].ast, lab == 'T')
            for t, lab in guards(cfg, target, start, within)]


def must_pass(cfg, src, dst, via, skip_exc=False):
    """every path src ->* dst passes through one of the nodes `via`"""
    labels = None
    if skip_exc:
        labels = {'next', 'T', 'F', 'iter', 'done'}
    r = cfg.reachable(src, skip_nodes=set(via), labels=labels)
    return dst not in r


def _falsy_const(e):
    return (isinstance(e, ast.Constant) and not e.value) or (
        isinstance(e, (ast.List, ast.Tuple, ast.Dict)) and
        not getattr(e, 'elts', getattr(e, 'keys', None))) or (
        isinstance(e, ast.Call) and isinstance(e.func, ast.Name) and
        e.func.id in ('list', 'dict', 'set', 'tuple') and not e.args and
        not e.keywords)


def _truth_test(e):
    """(name, edge label taken when the name is falsy) of a test on the
    truth of one local name: `x`, `not x`, `x is None`, `x is not None`"""
    if isinstance(e, ast.Name):
        return e.id, 'F'
    if isinstance(e, ast.UnaryOp) and isinstance(e.op, ast.Not) and \
            isinstance(e.operand, ast.Name):
        return e.operand.id, 'T'
    return None


def must_pass_feasible(cfg, src, dst, via, skip_exc=False):
    """as must_pass, but paths on which a local name was last bound to a falsy
    constant (`x = None`) and then tested for truth (`if x:`) only follow the
    edge that falsy value takes.  Product state: (node, names known falsy)."""
    from .model import stores_in_target
    via = set(via)
    start = (src, frozenset())
    seen = {start}
    todo = [start]
    while todo:
        nid, fz = todo.pop()
        n = cfg.nodes[nid]
        only = None
        if n.kind == 'test':
            t = _truth_test(n.ast)
            if t and t[0] in fz:
                only = t[1]
        nf = fz
        if n.kind == 'stmt' and isinstance(n.ast, ast.Assign):
            names = set()
            for tg in n.ast.targets:
                names |= set(stores_in_target(tg))
            if len(n.ast.targets) == 1 and \
                    isinstance(n.ast.targets[0], ast.Name) and \
                    _falsy_const(n.ast.value):
                nf = fz | names
            else:
                nf = fz - names
        elif n.kind == 'stmt' and isinstance(n.ast, (ast.AugAssign,
                                                     ast.AnnAssign)):
            nf = fz - set(stores_in_target(n.ast.target))
        elif n.kind == 'for':
            nf = fz - set(stores_in_target(n.ast.target))
        elif n.kind in ('with', 'handler') and n.ast is not None:
            bound = set()
            for x in ast.walk(n.ast) if n.kind == 'with' else []:
                if isinstance(x, ast.withitem) and x.optional_vars is not None:
                    bound |= set(stores_in_target(x.optional_vars))
            if n.kind == 'handler' and getattr(n.ast, 'name', None):
                bound.add(n.ast.name)
            nf = fz - bound
        for e in cfg.succ[nid]:
            if skip_exc and e.label == 'exc':
                continue
            if only is not None and e.label in ('T', 'F') and e.label != only:
                continue
            if e.dst == dst:
                return False
            if e.dst in via:
                continue
            st = (e.dst, nf)
            if st not in seen:
                seen.add(st)
                todo.append(st)
    return True


def precedes_on_all_paths(cfg, first_ids, second_id, start=None):
    """every path from start to second_id passes one of first_ids"""
    start = cfg.entry.id if start is None else start
    return must_pass(cfg, start, second_id, first_ids)


# ------------------------------------------------------------------------------
#
MUTATORS = {'append', 'extend', 'insert', 'add', 'update', 'setdefault',
            'put', 'appendleft'}


class Deps:
    """flow-insensitive dependence closure over the variables of one function.
    Locations: plain names, 'self.attr', and for subscripts the *base*
    location (x['k'] = v makes x depend on v).  Reads additionally yield
    field locations "x['k']" / "self.attr['k']" / "x.attr" for constant keys,
    so that `free = node['lfs']` makes `free` depend on "node['lfs']".
    Calls propagate all arguments and the receiver to the result (library
    calls included); a call `self.m(...)` also reads the pseudo location
    'ret:self.m'.  With implicit=True, stores lexically inside an if/while
    depend on what the test reads (implicit flow)."""

    def __init__(self, func_node, nested=True, implicit=True):
        self.edges = {}        # location -> set(locations it depends on)
        self.func = func_node
        self._scan(func_node, nested, implicit, frozenset())

    def _scan(self, node, nested, implicit, ctl):
        for n in ast.iter_child_nodes(node):
            if not nested and isinstance(n, (ast.FunctionDef, ast.Lambda,
                                             ast.AsyncFunctionDef)):
                continue
            c = ctl
            if isinstance(n, ast.Assign):
                src = self.reads(n.value) | ctl
                for t in n.targets:
                    self._store(t, src)
            elif isinstance(n, ast.AugAssign):
                self._store(n.target, self.reads(n.value) |
                            self.reads(n.target) | ctl)
            elif isinstance(n, ast.AnnAssign) and n.value is not None:
                self._store(n.target, self.reads(n.value) | ctl)
            elif isinstance(n, (ast.For, ast.comprehension)):
                self._store(n.target, self.reads(n.iter) | ctl)
            elif isinstance(n, ast.NamedExpr):
                self._store(n.target, self.reads(n.value) | ctl)
            elif isinstance(n, ast.withitem) and n.optional_vars is not None:
                self._store(n.optional_vars, self.reads(n.context_expr) | ctl)
            elif isinstance(n, ast.Call) and isinstance(n.func, ast.Attribute) \
                    and n.func.attr in MUTATORS:
                src = set(ctl)
                for a in n.args:
                    src |= self.reads(a)
                for k in n.keywords:
                    src |= self.reads(k.value)
                self._store(n.func.value, src)
            if implicit and isinstance(n, (ast.If, ast.While)):
                c = ctl | frozenset(self.reads(n.test))
                # the test itself is scanned with the outer context
                self._scan(n.test, nested, implicit, ctl)
                for part in (n.body, n.orelse):
                    for s in part:
                        self._scan_stmt(s, nested, implicit, c)
                continue
            self._scan(n, nested, implicit, c)

    def _scan_stmt(self, s, nested, implicit, ctl):
        holder = ast.Module(body=[s], type_ignores=[])
        self._scan(holder, nested, implicit, ctl)

    @staticmethod
    def loc(expr):
        """location of an lvalue / rvalue path"""
        e = expr
        while isinstance(e, (ast.Subscript, ast.Starred)):
            e = e.value
        if isinstance(e, ast.Attribute):
            d = dotted(e)
            if d.startswith('self.'):
                return '.'.join(d.split('.')[:2])
            r = root_name(e)
            return r
        if isinstance(e, ast.Name):
            return e.id
        return None

    @staticmethod
    def field(expr):
        """field location of a path with one constant key / attribute below
        its base location: node['lfs'] -> "node['lfs']", ro.occupation ->
        'ro.occupation', self.nodes[i]['lfs'] -> None (not constant)"""
        chain = []
        e = expr
        while isinstance(e, (ast.Subscript, ast.Attribute)):
            chain.append(e)
            e = e.value
        if not isinstance(e, ast.Name):
            return None
        chain.reverse()
        base = e.id
        i = 0
        if base == 'self' and chain and isinstance(chain[0], ast.Attribute):
            base = 'self.' + chain[0].attr
            i = 1
        if i >= len(chain):
            return None
        c = chain[i]
        if isinstance(c, ast.Subscript) and isinstance(c.slice, ast.Constant):
            return '%s[%r]' % (base, c.slice.value)
        if isinstance(c, ast.Attribute):
            return '%s.%s' % (base, c.attr)
        return None

    def reads(self, expr):
        out = set()
        for n in walk(expr, nested=True):
            if isinstance(n, ast.Name) and isinstance(n.ctx, ast.Load):
                out.add(n.id)
            elif isinstance(n, ast.Attribute):
                d = dotted(n)
                if d.startswith('self.'):
                    out.add('.'.join(d.split('.')[:2]))
            if isinstance(n, (ast.Subscript, ast.Attribute)):
                f = self.field(n)
                if f:
                    out.add(f)
            if isinstance(n, ast.Call):
                d = dotted(n.func)
                if d.startswith('self.'):
                    out.add('ret:' + d)
        return out

    def _store(self, target, src):
        if isinstance(target, (ast.Tuple, ast.List)):
            for e in target.elts:
                self._store(e, src)
            return
        if isinstance(target, ast.Starred):
            return self._store(target.value, src)
        l = self.loc(target)
        if l is None:
            return
        extra = set()
        if isinstance(target, ast.Subscript):
            extra = self.reads(target.slice)
        self.edges.setdefault(l, set()).update(set(src) | extra)

    def closure(self, loc):
        """all locations `loc` (transitively) depends on"""
        seen = set()
        todo = [loc]
        while todo:
            l = todo.pop()
            for d in self.edges.get(l, ()):
                if d not in seen:
                    seen.add(d)
                    todo.append(d)
        return seen

    def expr_depends(self, expr):
        out = set()
        for r in self.reads(expr):
            out.add(r)
            out |= self.closure(r)
        return out


# ------------------------------------------------------------------------------
#
def assigned_names(node, nested=False):
    """names stored anywhere below node"""
    out = set()
    for n in walk(node, nested=nested):
        if isinstance(n, ast.Name) and isinstance(n.ctx, (ast.Store, ast.Del)):
            out.add(n.id)
    return out


def const_compare(prog, module, test, cls=None):
    """recognise `x == C`, `x != C`, `x in [C..]`, `x not in [C..]`,
    `C == x`; returns (unparse(x), op, frozenset(values)) with op in
    {'in', 'notin'} or None"""
    from .model import UNKNOWN
    if not isinstance(test, ast.Compare) or len(test.ops) != 1:
        return None
    op = test.ops[0]
    l, r = test.left, test.comparators[0]
    if isinstance(op, (ast.Eq, ast.NotEq, ast.Is, ast.IsNot)):
        rv = prog.fold(module, r, cls)
        if rv is UNKNOWN and not (isinstance(r, ast.Constant)):
            lv = prog.fold(module, l, cls)
            if lv is UNKNOWN and not isinstance(l, ast.Constant):
                return None
            l, rv = r, lv
        try:
            vals = frozenset([rv])
        except TypeError:
            return None
        return (unparse(l), 'in' if isinstance(op, (ast.Eq, ast.Is))
                else 'notin', vals)
    if isinstance(op, (ast.In, ast.NotIn)):
        rv = prog.fold(module, r, cls)
        if rv is UNKNOWN or not isinstance(rv, (list, tuple, set, dict)):
            return None
        try:
            vals = frozenset(rv)
        except TypeError:
            return None
        return (unparse(l), 'in' if isinstance(op, ast.In) else 'notin', vals)
    return None


# ------------------------------------------------------------------------------
#
def reaching_defs(g, name, node_id):
    """cfg nodes that assign the plain name `name` and reach node_id without
    an intervening re-assignment; returns [(cfg node, value expr or None)]
    (value is None for tuple / loop / augmented bindings)"""
    defs = []
    for n in g.nodes:
        if n.ast is None:
            continue
        if n.kind == 'stmt' and isinstance(n.ast, (ast.Assign, ast.AnnAssign,
                                                   ast.AugAssign)):
            tg = n.ast.targets if isinstance(n.ast, ast.Assign) \
                else [n.ast.target]
            for t in tg:
                if isinstance(t, ast.Name) and t.id == name:
                    defs.append((n, n.ast.value if isinstance(
                        n.ast, (ast.Assign, ast.AnnAssign)) else None))
                elif isinstance(t, (ast.Tuple, ast.List)) and \
                        name in stores_in_target(t):
                    defs.append((n, None))
        elif n.kind == 'for' and name in stores_in_target(n.ast.target):
            defs.append((n, None))
    ids = {n.id for n, v in defs}
    out = []
    for n, v in defs:
        r = set()
        skip = ids - {node_id}
        for e in g.succ[n.id]:
            if e.label != 'exc':
                if e.dst == node_id:
                    r.add(node_id)
                elif e.dst not in skip:
                    r |= g.reachable(e.dst, skip_nodes=skip)
        if node_id in r:
            out.append((n, v))
    return out
