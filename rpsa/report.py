"""Obligations, findings, known-finding matching, evidence files."""

import os
import re
import json
import time

from .model import AnalysisError, unparse, short, PKG

VERIF = os.path.dirname(os.path.dirname(os.path.abspath(__file__)))


def norm(construct):
    """normal form of a construct for finding keys"""
    s = unparse(construct) if not isinstance(construct, str) else construct
    return ' '.join(s.split())


class Finding:

    def __init__(self, prop, rule, where, construct, message, loc, history=None,
                 path=None):
        self.prop      = prop
        self.rule      = rule
        self.where     = where
        self.construct = norm(construct)
        self.message   = message
        self.loc       = loc
        self.history   = history
        self.path      = path or []

    @property
    def key(self):
        return '%s|%s|%s|%s' % (self.prop, self.rule, self.where,
                                self.construct)

    def as_dict(self):
        return {'property': self.prop, 'rule': self.rule, 'where': self.where,
                'construct': self.construct, 'message': self.message,
                'loc': self.loc, 'history': self.history, 'path': self.path,
                'key': self.key}


class Report:

    def __init__(self, prop, tier='quick', root='/repo', quiet=False):
        self.prop     = prop
        self.tier     = tier
        self.root     = root
        self.quiet    = quiet
        self.t0       = time.time()
        self.rules    = {}      # rule id -> text
        self.counts   = {}      # rule id -> [obligations, discharged]
        self.minimum  = {}      # rule id -> expected minimum obligations
        self.samples  = []
        self.findings = []
        self.infos    = []
        self.analysed = set()   # functions / files analysed
        self.stats    = {}      # free counters (cfg nodes, paths, unresolved)
        self.decided   = ''
        self.undecided = ''
        self.assumptions = []
        self.errors   = []      # AnalysisErrors of single rules (attempt())
        self.partial  = False   # verdict rests on findings of the other rules

    # --------------------------------------------------------------------------
    def rule(self, rid, text, minimum=1):
        self.rules[rid] = text
        self.counts.setdefault(rid, [0, 0])
        self.minimum[rid] = minimum

    def attempt(self, fn, *a, **kw):
        """run one rule; a rule that cannot analyse its anchors does not hide
        what the other rules of the property find (main._try decides)"""
        try:
            return fn(*a, **kw)
        except AnalysisError as e:
            self.errors.append(e)
            return None

    def saw(self, func):
        self.analysed.add(func.where if hasattr(func, 'where') else str(func))

    def stat(self, name, n=1):
        self.stats[name] = self.stats.get(name, 0) + n

    def ok(self, rid, where, what, loc=None):
        c = self.counts.setdefault(rid, [0, 0])
        c[0] += 1
        c[1] += 1
        if len([s for s in self.samples if s['rule'] == rid]) < 4:
            self.samples.append({'rule': rid, 'where': _w(where),
                                 'obligation': what, 'loc': loc,
                                 'status': 'discharged'})

    def bad(self, rid, where, construct, message, loc=None, history=None,
            path=None):
        c = self.counts.setdefault(rid, [0, 0])
        c[0] += 1
        f = Finding(self.prop, rid, _w(where), construct, message, loc,
                    history, path)
        # the same construct reported twice by one rule is one finding
        for g in self.findings:
            if g.key == f.key:
                return g
        self.findings.append(f)
        return f

    def info(self, rid, where, message, loc=None):
        self.infos.append({'rule': rid, 'where': _w(where), 'message': message,
                           'loc': loc})

    def check(self, cond, rid, where, what, construct=None, message=None,
              loc=None, history=None, path=None):
        if cond:
            self.ok(rid, where, what, loc)
        else:
            self.bad(rid, where, construct if construct is not None else what,
                     message or ('obligation not met: ' + what), loc, history,
                     path)
        return bool(cond)

    # --------------------------------------------------------------------------
    def verify_minimums(self):
        for rid, mn in self.minimum.items():
            n = self.counts.get(rid, [0, 0])[0]
            if n < mn:
                raise AnalysisError(
                    'rule %s produced %d obligation(s), expected at least %d: '
                    'the anchors it is instantiated on are gone or changed '
                    'shape beyond what the recogniser knows' % (rid, n, mn))

    # --------------------------------------------------------------------------
    def finish(self, write_evidence=True, out=None):
        """match findings against known_findings.json, print the verdict lines,
        write evidence; returns the exit code"""
        pr = out or print
        if not self.partial:
            self.verify_minimums()
        for e in self.errors:
            pr('NOTE: a rule of %s could not be analysed on this tree: %s'
               % (self.prop, str(e)[:300]))
        known = load_known()
        kf = [k for k in known.get('known', []) if k['property'] == self.prop]
        n_known, viol = 0, []
        matched = set()
        for f in self.findings:
            hit = None
            for i, k in enumerate(kf):
                if k.get('rule') == f.rule and k.get('where') == f.where \
                        and norm(k.get('construct', '')) == f.construct:
                    hit = i
                    break
            if hit is not None:
                matched.add(hit)
                n_known += 1
                pr('KNOWN-FINDING: property=%s %s [%s %s] %s'
                   % (self.prop, kf[hit].get('what', f.message), f.rule,
                      f.loc or f.where, kf[hit].get('id', '')))
            else:
                viol.append(f)
        for i, k in enumerate(kf):
            if i not in matched and not self.quiet:
                pr('NOTE: known finding %s no longer reported by %s on this '
                   'tree (repaired or moved): %s'
                   % (k.get('id', ''), k.get('rule'), k.get('what', '')))
        rdir = os.path.join(VERIF, 'replay')
        try:
            for fn in os.listdir(rdir):
                if fn.startswith(self.prop + '-') and fn.endswith('.json'):
                    os.unlink(os.path.join(rdir, fn))
        except OSError:
            pass
        for i, f in enumerate(viol):
            path = os.path.join(rdir, '%s-%d.json' % (self.prop, i + 1))
            try:
                os.makedirs(rdir, exist_ok=True)
                with open(path, 'w') as fh:
                    json.dump(f.as_dict(), fh, indent=1)
            except OSError:
                pass
            pr('%s: %s %s in %s: %s' % (f.loc or f.where, f.rule,
                                        self.rules.get(f.rule, ''), f.where,
                                        f.message))
            if f.history:
                pr('    fails with: %s' % f.history)
            if f.path:
                pr('    path: %s' % ' ; '.join(f.path))
            pr('    construct: %s' % short(f.construct, 160))
            pr('VIOLATION property=%s replay=%s' % (self.prop, path))
        if write_evidence:
            self.write_evidence(len(viol), n_known)
        if not self.quiet:
            ob = sum(c[0] for c in self.counts.values())
            di = sum(c[1] for c in self.counts.values())
            pr('%s %s: %d rules, %d obligations, %d discharged, %d known, '
               '%d violated, %.2fs' % (self.prop, self.tier, len(self.rules),
                                       ob, di, n_known, len(viol),
                                       time.time() - self.t0))
        return 1 if viol else 0

    # --------------------------------------------------------------------------
    def write_evidence(self, n_viol, n_known):
        ob = sum(c[0] for c in self.counts.values())
        di = sum(c[1] for c in self.counts.values())
        ev = {
            'property_id': self.prop,
            'tier'       : self.tier,
            'seed'       : int(os.environ.get('VERIF_SEED', '0') or 0),
            'level'      : 'other',
            'coverage'   : {
                'explanation': ('Static analysis of the current working tree '
                    'of %s (ast + hand-built CFG, call resolution over the C3 '
                    'MRO; nothing is imported or executed). DECIDED: %s  '
                    'NOT DECIDED: %s' % (self.root, self.decided,
                                         self.undecided)),
                'obligations' : ob,
                'discharged'  : di,
                'known_findings_matched': n_known,
                'violated'    : n_viol,
                'rules'       : [{'id': r, 'rule': t,
                                  'obligations': self.counts[r][0],
                                  'discharged': self.counts[r][1],
                                  'expected_minimum': self.minimum.get(r)}
                                 for r, t in sorted(self.rules.items())],
                'functions_analysed': sorted(self.analysed),
                'stats'       : self.stats,
                'samples'     : self.samples[:60] +
                                [dict(f.as_dict(), status='finding')
                                 for f in self.findings][:20],
                'information' : self.infos[:40],
                'exhaustive'  : False,
                'checker_cmd' : './check %s --tier %s' % (self.prop,
                                                          self.tier),
            },
            'assumptions': self.assumptions,
            'wall_s'     : round(time.time() - self.t0, 3),
            'violations' : n_viol,
        }
        d = os.path.join(VERIF, 'evidence')
        os.makedirs(d, exist_ok=True)
        tmp = os.path.join(d, '.%s.json.tmp' % self.prop)
        with open(tmp, 'w') as fh:
            json.dump(ev, fh, indent=1, default=str)
        os.replace(tmp, os.path.join(d, '%s.json' % self.prop))


def _w(where):
    return where.where if hasattr(where, 'where') else str(where)


_known = None


def load_known():
    global _known
    if _known is None:
        p = os.path.join(VERIF, 'known_findings.json')
        if os.path.exists(p):
            with open(p) as fh:
                _known = json.load(fh)
        else:
            _known = {'known': [], 'fixed': []}
    return _known
